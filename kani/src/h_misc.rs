//! Harnesses that do not involve the optimiser.
use packing::traits::Basis;
use packing::{Cell2, CrystalFamily};

fn any_family() -> CrystalFamily {
    let k: u8 = kani::any();
    kani::assume(k < 4);
    match k {
        0 => CrystalFamily::Monoclinic,
        1 => CrystalFamily::Orthorhombic,
        2 => CrystalFamily::Hexagonal,
        _ => CrystalFamily::Tetragonal,
    }
}

/// C09: Clone of a cell is a deep copy: writes through the clone's handles never reach the
/// original (CBMC tracks the UnsafeCell pointers, so an aliasing copy is a counterexample).
#[kani::proof]
#[kani::unwind(5)]
fn c09_cell_clone_isolated() {
    let len: f64 = kani::any();
    kani::assume(len.is_finite() && len > 0.01 && len < 100.);
    let original = Cell2::from_family(any_family(), len);
    let (a0, b0, t0) = (original.a().to_bits(), original.b().to_bits(), original.angle().to_bits());
    let copy = original.clone();
    assert!(copy.a().to_bits() == a0 && copy.b().to_bits() == b0 && copy.angle().to_bits() == t0);
    {
        let mut dof = copy.get_degrees_of_freedom();
        let k: usize = kani::any();
        kani::assume(k < dof.len());
        let v: f64 = kani::any();
        kani::assume(v.is_finite());
        dof[k].set_value(v);
        kani::cover!(copy.a().to_bits() != a0, "the write is visible in the copy");
    }
    assert!(original.a().to_bits() == a0 && original.b().to_bits() == b0 && original.angle().to_bits() == t0);
}

#[kani::proof]
#[kani::unwind(4)]
fn c09_site_clone_isolated() {
    use packing::wallpaper::WyckoffSite;
    use packing::OccupiedSite;
    let w = WyckoffSite { letter: 'a', symmetries: vec![], num_rotations: 1, mirror_primary: false, mirror_secondary: false };
    let original = OccupiedSite::from_wyckoff(&w);
    let copy = original.clone();
    let b0 = {
        let hs = original.get_basis(1);
        (hs[0].get_value().to_bits(), hs[1].get_value().to_bits(), hs[2].get_value().to_bits())
    };
    {
        let mut hs = copy.get_basis(1);
        let k: usize = kani::any();
        kani::assume(k < 3);
        let v: f64 = kani::any();
        kani::assume(v.is_finite());
        hs[k].set_value(v);
    }
    let hs = original.get_basis(1);
    assert!(hs[0].get_value().to_bits() == b0.0 && hs[1].get_value().to_bits() == b0.1 && hs[2].get_value().to_bits() == b0.2);
}
