//! Kani harnesses over the real `optimise_state` with the scripted mock (C05 C06 C07 C18 C19 C20).
use crate::monitor::*;
use crate::stubs::*;

pub struct Inputs {
    pub cfg: Cfg,
    pub script: Script,
    pub init: [f64; NP],
    pub exp_choice: u32,
    pub powf_choice: f64,
}

// ---------------------------------------------------------------------------------------------
// Symbolic inputs.  Every float input is a symbolic *index* into a small table of exactly
// representable values (dyadic grid plus a few extreme values).  The accept/reject history,
// clamping, parameter choice per step etc. stay fully symbolic; what is bounded is the set of
// numeric values (stated in the evidence).  Tables:
pub const SCORES: [f64; 12] = [
    -1.0e6, -2., -1., -0.25, -8.470329472543003e-22, 0., 8.470329472543003e-22, 0.25, 1., 2., 3., 1.0e6,
];
pub const KTS: [f64; 6] = [0., 0.0625, 0.5, 1., 8., 1.0e-9];
pub const RATIOS: [f64; 4] = [0., 0.5, 1., 0.25];
pub const FINS: [f64; 5] = [0., 0.015625, 0.5, 1., 2.];
pub const STEPS: [f64; 6] = [0., 0.015625, 0.25, 1., 2., 1.0e-3];
pub const CONVS: [f64; 4] = [-1., 0., 0.25, 100.];
pub const LOS: [f64; 3] = [0., -1., -0.5];
pub const WIDTHS: [f64; 4] = [1., 0.5, 2., 0.];
pub const FRACS: [f64; 5] = [0., 0.25, 0.5, 0.75, 1.];
pub const POWFS: [f64; 5] = [0., 0.5, 0.875, 1., 2.];

fn pick<const N: usize>(t: &[f64; N], k: u8) -> f64 {
    kani::assume((k as usize) < N);
    t[k as usize]
}

/// How an optional setting is chosen: absent, symbolic (presence and table index), or fixed.
#[derive(Clone, Copy)]
pub enum Opt {
    Absent,
    Sym,
    Fixed(f64),
}

/// What is left symbolic.
#[derive(Clone, Copy)]
pub struct Shape {
    pub np: usize,
    pub seed: u64,
    pub steps: u64,
    pub inner: u64,
    /// concrete [0,1] ranges when false
    pub sym_range: bool,
    /// kt_start fixed to this value when Some, symbolic table index otherwise
    pub kt_start: Option<f64>,
    pub conv: Opt,
    pub finish: Opt,
    pub ratio: Opt,
}

fn opt(o: Opt, has: bool, v: f64) -> Option<f64> {
    match o {
        Opt::Absent => None,
        Opt::Sym => {
            if has {
                Some(v)
            } else {
                None
            }
        }
        Opt::Fixed(x) => Some(x),
    }
}

/// All symbolic inputs are drawn here, in this fixed order (the replay decoder relies on it:
/// every value is drawn whether or not it is then used).
pub fn draw(sh: Shape) -> Inputs {
    let np = sh.np;
    let k_kt: u8 = kani::any();
    let has_fin: bool = kani::any();
    let k_fin: u8 = kani::any();
    let has_ratio: bool = kani::any();
    let k_ratio: u8 = kani::any();
    let k_step: u8 = kani::any();
    let has_conv: bool = kani::any();
    let k_conv: u8 = kani::any();
    let k_lo: [u8; NP] = kani::any();
    let k_w: [u8; NP] = kani::any();
    let k_init: [u8; NP] = kani::any();
    let k_init_score: u8 = kani::any();
    let valid: u32 = kani::any();
    let k_score: [u8; MAXC] = kani::any();
    let exp_choice: u32 = kani::any();
    let k_powf: u8 = kani::any();

    let kt_start = match sh.kt_start {
        Some(x) => x,
        None => pick(&KTS, k_kt),
    };
    let fin = pick(&FINS, k_fin);
    let ratio = pick(&RATIOS, k_ratio);
    let max_step = pick(&STEPS, k_step);
    let conv = pick(&CONVS, k_conv);
    let mut lo = [0f64; NP];
    let mut hi = [1f64; NP];
    let mut init = [0f64; NP];
    let mut i = 0;
    while i < NP {
        if i < np {
            if sh.sym_range {
                lo[i] = pick(&LOS, k_lo[i]);
                hi[i] = lo[i] + pick(&WIDTHS, k_w[i]);
            }
            init[i] = lo[i] + (hi[i] - lo[i]) * pick(&FRACS, k_init[i]);
        }
        i += 1;
    }
    let init_score = pick(&SCORES, k_init_score);
    // unrolled by hand: a loop here would force the global unwind bound up to MAXC
    let sc = |t: usize| -> f64 {
        kani::assume((k_score[t] as usize) < SCORES.len());
        SCORES[k_score[t] as usize]
    };
    let score: [f64; MAXC] = [
        sc(0), sc(1), sc(2), sc(3), sc(4), sc(5), sc(6), sc(7), sc(8), sc(9), sc(10), sc(11), sc(12), sc(13), sc(14), sc(15),
    ];

    Inputs {
        cfg: Cfg {
            steps: sh.steps,
            inner: sh.inner,
            kt_start,
            kt_finish: opt(sh.finish, has_fin, fin),
            kt_ratio: opt(sh.ratio, has_ratio, ratio),
            max_step,
            conv: opt(sh.conv, has_conv, conv),
            seed: sh.seed,
            np,
            lo,
            hi,
        },
        script: Script { valid: valid as u64, score, init_score },
        init,
        exp_choice,
        powf_choice: pick(&POWFS, k_powf),
    }
}

pub fn go(inp: &Inputs) {
    install(inp.cfg, inp.script, inp.init, inp.exp_choice, inp.powf_choice);
    run(&inp.cfg, inp.init);
}

