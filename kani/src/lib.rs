#![allow(static_mut_refs)]
pub mod monitor;
#[cfg(kani)]
pub mod stubs;
#[cfg(kani)]
mod h_opt;
#[cfg(kani)]
mod h_gen;
#[cfg(kani)]
mod h_misc;
