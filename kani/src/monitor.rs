//! Scripted `State` + online monitor, shared (via #[path]) by the Kani harness
//! crate and the native replay binary.
//!
//! The optimiser under test is the *real* `packing::MCOptimiser::optimise_state`.
//! It is generic over `State`; `Mock` is a `State` whose score is scripted per
//! call and which checks, at every call of `score()`, what the properties
//! C05/C06/C07/C18/C19/C20 say about the parameter vector it is asked to score.
//!
//! Nothing here inspects private fields of the optimiser: every observation is
//! made at `State::score()` (the observation point the properties name), plus
//! the arguments the code hands to `f64::exp` / `f64::powf` (Kani stubs log
//! them; natively they are not visible and the corresponding clauses are
//! decided from accept/reject outcomes instead).
#![allow(static_mut_refs)]
#![allow(dead_code)]

use packing::traits::{State, ToSVG};
use packing::{SharedValue, StandardBasis};
use serde::Serialize;

pub const NP: usize = 3; // max parameters of the mock
#[cfg(kani)]
pub const MAXC: usize = 16; // max logged score() calls
#[cfg(not(kani))]
pub const MAXC: usize = 64;
pub const MAXE: usize = 16; // max logged exp calls

/// Optimiser configuration as the harness sets it (mirrors BuildOptimiser's setters).
#[derive(Clone, Copy, Debug)]
pub struct Cfg {
    pub steps: u64,
    pub inner: u64,
    pub kt_start: f64,
    pub kt_finish: Option<f64>,
    pub kt_ratio: Option<f64>,
    pub max_step: f64,
    pub conv: Option<f64>,
    pub seed: u64,
    pub np: usize,
    pub lo: [f64; NP],
    pub hi: [f64; NP],
}

/// Scripted answers: call t (t>=1) gets (valid[t], score[t]) unless the vector
/// equals the held vector, in which case it gets the held score (a score is a
/// function of the parameters).
#[derive(Clone, Copy, Debug)]
pub struct Script {
    /// bit t = proposal at call t has a defined score
    pub valid: u64,
    pub score: [f64; MAXC],
    pub init_score: f64,
}

/// Violation flags, one per property clause.
#[derive(Clone, Copy, Debug, Default)]
pub struct Flags {
    /// C06: a proposal differs from the held state in more than one parameter
    pub multi_param: bool,
    /// C06 / C05 / C07: proposal not derived from the expected held state
    pub bad_held: bool,
    /// C19: move larger than max_step * range / 2
    pub big_move: bool,
    /// C08: parameter outside [lo, hi]
    pub out_of_range: bool,
    /// C07/C18: exp argument disagrees with (new-old)/kt_spec
    pub bad_exp_arg: bool,
    /// C18: powf arguments disagree with the spec (base, exponent)
    pub bad_powf: bool,
    /// some step's decision could not be determined (probabilistic region)
    pub prob: bool,
    /// monitor capacity exceeded
    pub overflow: bool,
    /// exp consulted more than once in a step, or for a move that needs no draw
    pub exp_twice: bool,
    /// C20: number of evaluated proposals outside (steps - inner, steps], or early/late stop
    pub bad_count: bool,
}

pub struct Mon {
    pub cfg: Cfg,
    pub script: Script,
    pub calls: usize,
    pub vecs: [[u64; NP]; MAXC],
    pub held: [u64; NP],
    pub cur: f64,
    pub init_vec: [u64; NP],
    // pending step (decision not yet resolved)
    pub pend: bool,
    pub pend_vec: [u64; NP],
    pub pend_valid: bool,
    pub pend_score: f64,
    pub pend_exp_n: usize,
    // schedule per spec
    pub proposals: u64,
    pub last_equal: bool,
    pub in_loop: u64,
    pub inner_eff: u64,
    pub kt_spec: f64,
    pub factor: f64,
    pub factor_known: bool,
    pub loops_done: u64,
    // accepted-score trace (C05)
    pub accepted: u64,
    pub rejected: u64,
    pub loop_start_score: f64,
    pub conv_count: u64,
    pub conv_stop_at: u64, // proposals after which spec says stop (0 = none)
    // exp / powf logs
    pub exp_n: usize,
    pub exp_arg: [f64; MAXE],
    pub exp_ret: [f64; MAXE],
    pub exp_choice: u32,
    pub powf_n: usize,
    pub powf_base: f64,
    pub powf_exp: f64,
    pub powf_ret: f64,
    pub powf_choice: f64,
    pub flags: Flags,
    /// a valid proposal scored strictly below the held score (its fate depends on temperature)
    pub saw_worse: bool,
    /// kt_finish schedule requested at kt_start > 0 but powf never consulted
    pub powf_missing: bool,
    pub first_bad_call: usize,
    /// false once a decision could not be determined: later observations prove nothing
    pub reliable: bool,
    /// native replay only: the uniform draw of each step (from a replica of the seeded generator,
    /// consumed in the order index, move, acceptance); lets the monitor decide the probabilistic
    /// region exactly.  Empty under Kani.
    pub draws_n: usize,
    pub draws: [f64; MAXC],
}

pub static mut MON: Option<Mon> = None;

pub fn mon() -> &'static mut Mon {
    unsafe { MON.as_mut().unwrap() }
}

pub fn install(cfg: Cfg, script: Script, init: [f64; NP], exp_choice: u32, powf_choice: f64) {
    let mut iv = [0u64; NP];
    let mut i = 0;
    while i < NP {
        iv[i] = init[i].to_bits();
        i += 1;
    }
    let inner_eff = if cfg.inner < cfg.steps { cfg.inner } else { cfg.steps };
    let m = Mon {
        cfg,
        script,
        calls: 0,
        vecs: [[0; NP]; MAXC],
        held: iv,
        cur: script.init_score,
        init_vec: iv,
        pend: false,
        pend_vec: [0; NP],
        pend_valid: false,
        pend_score: 0.,
        pend_exp_n: 0,
        proposals: 0,
        last_equal: false,
        in_loop: 0,
        inner_eff: if inner_eff == 0 { 1 } else { inner_eff },
        kt_spec: cfg.kt_start,
        factor: 0.,
        factor_known: false,
        loops_done: 0,
        accepted: 0,
        rejected: 0,
        loop_start_score: script.init_score,
        conv_count: 0,
        conv_stop_at: 0,
        exp_n: 0,
        exp_arg: [0.; MAXE],
        exp_ret: [0.; MAXE],
        exp_choice,
        powf_n: 0,
        powf_base: 0.,
        powf_exp: 0.,
        powf_ret: 0.,
        powf_choice,
        flags: Flags::default(),
        saw_worse: false,
        powf_missing: false,
        first_bad_call: usize::MAX,
        reliable: true,
        draws_n: 0,
        draws: [0.; MAXC],
    };
    unsafe {
        MON = Some(m);
    }
}

#[cfg(not(kani))]
fn native_exp(x: f64) -> f64 {
    x.exp()
}
#[cfg(kani)]
fn native_exp(_x: f64) -> f64 {
    0.
}

fn rel_close(a: f64, b: f64, tol: f64) -> bool {
    if a == b {
        return true;
    }
    let d = if a > b { a - b } else { b - a };
    let ma = if a < 0. { -a } else { a };
    let mb = if b < 0. { -b } else { b };
    let m = if ma > mb { ma } else { mb };
    d <= tol * m
}

/// exp thresholds: below LO the true exp underflows to exactly 0 (f64), above HI it is exactly 1.
pub const EXP_ZERO_BELOW: f64 = -750.0;
pub const EXP_ONE_ABOVE: f64 = -1.0e-17;

impl Mon {
    /// Cooling factor per spec, once known.
    fn spec_factor(&mut self) -> Option<f64> {
        if self.factor_known {
            return Some(self.factor);
        }
        let f = match (self.cfg.kt_ratio, self.cfg.kt_finish) {
            (Some(r), _) => Some(1. - r),
            (None, Some(_fin)) => {
                if self.cfg.kt_start == 0. {
                    // zero temperature stays zero whatever the factor is
                    Some(0.)
                } else {
                    self.spec_powf()
                }
            }
            (None, None) => Some(0.1),
        };
        if let Some(v) = f {
            self.factor = v;
            self.factor_known = true;
        }
        f
    }

    #[cfg(kani)]
    fn spec_powf(&mut self) -> Option<f64> {
        // Under Kani powf is stubbed; the stub logged (base, exponent) and its return value.
        if self.powf_n == 0 {
            None
        } else {
            Some(self.powf_ret)
        }
    }

    #[cfg(not(kani))]
    fn spec_powf(&mut self) -> Option<f64> {
        let fin = self.cfg.kt_finish.unwrap();
        let loops = self.cfg.steps / self.inner_eff;
        Some(f64::powf(fin / self.cfg.kt_start, 1. / loops as f64))
    }

    /// Resolve the pending step: decide accept/reject per the specification.
    fn resolve(&mut self) {
        if !self.pend {
            return;
        }
        self.pend = false;
        let s = self.pend_score;
        let cur = self.cur;
        let n_exp = self.exp_n - self.pend_exp_n;
        let mut accept;
        let kt = self.kt_spec;
        if !self.pend_valid {
            accept = false;
        } else if s > cur {
            accept = true;
        } else if s == cur {
            accept = true;
        } else if s < cur {
            self.saw_worse = true;
            if kt == 0. {
                accept = false;
            } else if kt > 0. {
                let x_ref = (s - cur) / kt;
                if x_ref < EXP_ZERO_BELOW {
                    accept = false;
                } else if x_ref > EXP_ONE_ABOVE {
                    accept = true;
                } else {
                    // probabilistic region: under Kani the exp stub forces the outcome
                    // (returns exactly 0 or 1, independent of the uniform draw); natively the
                    // outcome depends on the draw and the monitor stops drawing conclusions.
                    self.flags.prob = true;
                    accept = false;
                    if cfg!(kani) && n_exp >= 1 {
                        let e = self.exp_ret[self.pend_exp_n];
                        accept = e >= 1.;
                    } else if !cfg!(kani) && self.proposals >= 1 && (self.proposals as usize) <= self.draws_n {
                        let u = self.draws[self.proposals as usize - 1];
                        accept = u < native_exp(x_ref).min(1.);
                    } else {
                        self.reliable = false;
                    }
                }
                // exp argument check (only visible under Kani)
                if n_exp >= 1 && self.factor_known_or_first_loop() {
                    let x = self.exp_arg[self.pend_exp_n];
                    if !(rel_close(x, x_ref, 1e-9)) {
                        if self.reliable {
                            self.flags.bad_exp_arg = true;
                            self.note_bad();
                        }
                    }
                }
            } else {
                // negative or NaN spec temperature: outside the properties' domain
                self.flags.prob = true;
                self.reliable = false;
                accept = false;
            }
        } else {
            // NaN score: outside domain
            self.flags.prob = true;
            self.reliable = false;
            accept = false;
        }
        if n_exp > 1 && self.reliable {
            self.flags.exp_twice = true;
        }
        if accept {

            self.held = self.pend_vec;
            self.cur = s;
            self.accepted += 1;
        } else {
            self.rejected += 1;
        }
        // end of an inner loop per spec?
        self.in_loop += 1;
        if self.in_loop == self.inner_eff {
            self.in_loop = 0;
            self.loops_done += 1;
            // cooling
            if self.kt_spec != 0. {
                match self.spec_factor() {
                    Some(f) => self.kt_spec *= f,
                    None => {
                        // factor unknown (no powf observed): temperature unknown from here on
                        self.kt_spec = f64::NAN;
                    }
                }
            }
            // convergence per spec
            if let Some(p) = self.cfg.conv {
                if self.cur - self.loop_start_score < p {
                    self.conv_count += 1;
                    if self.conv_count > 5 && self.conv_stop_at == 0 {
                        self.conv_stop_at = self.proposals;
                    }
                } else {
                    self.conv_count = 0;
                }
            }
            self.loop_start_score = self.cur;
        }
    }

    fn factor_known_or_first_loop(&self) -> bool {
        !self.kt_spec.is_nan()
    }

    fn note_bad(&mut self) {
        if self.first_bad_call == usize::MAX {
            self.first_bad_call = self.calls;
        }
    }

    /// Called from `Mock::score` with the current parameter vector.
    pub fn on_score(&mut self, v: [u64; NP]) -> Option<f64> {
        let t = self.calls;
        if t >= MAXC {
            self.flags.overflow = true;
            return None;
        }
        self.vecs[t] = v;
        self.calls = t + 1;
        if t == 0 {
            // initial call: must be the initial vector
            return Some(self.script.init_score);
        }
        self.resolve();
        // compare with held
        let np = self.cfg.np;
        let mut diff = 0usize;
        let mut which = 0usize;
        let mut j = 0;
        while j < NP {
            if j < np && v[j] != self.held[j] {
                diff += 1;
                which = j;
            }
            j += 1;
        }
        if diff > 1 {
            // Either two parameters moved at once, or the proposal was not derived from the
            // held state.
            if self.reliable {
                self.flags.multi_param = true;
                self.flags.bad_held = true;
                self.note_bad();
            }
        }
        // range + move size
        j = 0;
        while j < NP {
            if j < np {
                let x = f64::from_bits(v[j]);
                if !(x >= self.cfg.lo[j] && x <= self.cfg.hi[j]) {
                    if self.reliable {
                        self.flags.out_of_range = true;
                        self.note_bad();
                    }
                }
            }
            j += 1;
        }
        if diff == 1 {
            let a = f64::from_bits(v[which]);
            let b = f64::from_bits(self.held[which]);
            let d = if a > b { a - b } else { b - a };
            let cap = self.cfg.max_step * (self.cfg.hi[which] - self.cfg.lo[which]) * 0.5;
            // rounding slack: the real move is value + step*range*u, |u| <= 1/2, with a handful of
            // roundings; 1e-9 relative plus 1e-12 absolute is far above that and far below any
            // real excess.
            if !(d <= cap * (1. + 1e-9) + 1e-12) {
                if self.reliable {
                    self.flags.big_move = true;
                    self.note_bad();
                }
            }
        }
        self.proposals += 1;
        self.pend = true;
        self.pend_vec = v;
        self.pend_exp_n = self.exp_n;
        // Proposals are answered from the script by call index, even when the proposed vector
        // equals the held one (an adversarial, scripted score function may reject a no-op move).
        // Calls after the last proposal the configuration asks for (the optimiser's final validity
        // check, the harness's own observation) see the held score if they see the held vector.
        let p_full = if self.cfg.steps == 0 { 0 } else { (self.cfg.steps / self.inner_eff) * self.inner_eff };
        if diff == 0 && self.proposals > p_full {
            self.pend_valid = true;
            self.pend_score = self.cur;
            self.last_equal = true;
            return Some(self.cur);
        }
        self.last_equal = diff == 0;
        self.pend_valid = (self.script.valid >> t) & 1 == 1;
        self.pend_score = self.script.score[t];
        if self.pend_valid {
            Some(self.pend_score)
        } else {
            None
        }
    }

    /// After the run: `n` = number of score() calls the optimiser made after the initial one,
    /// `last_equal` = whether the last of them saw the held vector (then it may have been the
    /// final validity check rather than a proposal); `fin` = vector of the returned state.
    pub fn finish(&mut self, n: u64, last_equal: bool, fin: [u64; NP]) {
        self.resolve();
        let mut j = 0;
        while j < NP {
            if j < self.cfg.np && fin[j] != self.held[j] {
                if self.reliable {
                    self.flags.bad_held = true;
                    self.note_bad();
                }
            }
            j += 1;
        }
        // C18: the cooling factor requested through kt_finish.  Under Kani powf is stubbed and its
        // arguments are visible: base = finish/start, and the exponent e must spread the cooling
        // over the L = steps/inner loops of the run (within one cooling step): L-1 <= 1/e <= L+1.
        #[cfg(kani)]
        {
            if let (None, Some(fin)) = (self.cfg.kt_ratio, self.cfg.kt_finish) {
                let l = if self.cfg.steps == 0 { 0 } else { self.cfg.steps / self.inner_eff };
                if self.cfg.kt_start > 0. && l >= 1 {
                    if self.powf_n == 0 {
                        self.powf_missing = true;
                    } else {
                        let base_ok = rel_close(self.powf_base, fin / self.cfg.kt_start, 1e-9);
                        let inv = 1. / self.powf_exp;
                        let lf = l as f64;
                        let exp_ok = inv >= (lf - 1.) * (1. - 1e-9) && inv <= (lf + 1.) * (1. + 1e-9);
                        if !(base_ok && exp_ok) {
                            self.flags.bad_powf = true;
                        }
                    }
                }
            }
        }
        // C20: amount of work.  P = number of proposals is n, or n-1 if the last call was the
        // final check.
        let steps = self.cfg.steps;
        let p_full = if steps == 0 { 0 } else { (steps / self.inner_eff) * self.inner_eff };
        let cand_a = n;
        let cand_b = if last_equal && n > 0 { n - 1 } else { n };
        let ok_p = |p: u64| -> bool { p <= steps && p + self.inner_eff > steps };
        let mut ok;
        if self.conv_stop_at > 0 && self.conv_stop_at <= p_full {
            ok = cand_a == self.conv_stop_at || cand_b == self.conv_stop_at;
        } else {
            ok = ok_p(cand_a) || ok_p(cand_b);
        }
        if steps == 0 {
            ok = cand_b == 0;
        }
        if !ok && self.reliable {
            self.flags.bad_count = true;
        }
    }
}

/// The scripted state.
#[derive(Debug, Serialize)]
pub struct Mock {
    pub p: [SharedValue; NP],
    pub np: usize,
    pub lo: [f64; NP],
    pub hi: [f64; NP],
}

impl Mock {
    pub fn new(cfg: &Cfg, init: [f64; NP]) -> Mock {
        Mock {
            p: [
                SharedValue::new(init[0]),
                SharedValue::new(init[1]),
                SharedValue::new(init[2]),
            ],
            np: cfg.np,
            lo: cfg.lo,
            hi: cfg.hi,
        }
    }
    pub fn vector(&self) -> [u64; NP] {
        [
            self.p[0].get_value().to_bits(),
            self.p[1].get_value().to_bits(),
            self.p[2].get_value().to_bits(),
        ]
    }
}

impl Clone for Mock {
    fn clone(&self) -> Self {
        Mock {
            p: [
                SharedValue::new(self.p[0].get_value()),
                SharedValue::new(self.p[1].get_value()),
                SharedValue::new(self.p[2].get_value()),
            ],
            np: self.np,
            lo: self.lo,
            hi: self.hi,
        }
    }
}

impl PartialEq for Mock {
    fn eq(&self, _o: &Self) -> bool {
        false
    }
}
impl Eq for Mock {}
impl PartialOrd for Mock {
    fn partial_cmp(&self, _o: &Self) -> Option<std::cmp::Ordering> {
        None
    }
}
impl Ord for Mock {
    fn cmp(&self, _o: &Self) -> std::cmp::Ordering {
        std::cmp::Ordering::Equal
    }
}

impl ToSVG for Mock {
    type Value = svg::Document;
    fn as_svg(&self) -> Self::Value {
        svg::Document::new()
    }
}

impl State for Mock {
    fn score(&self) -> Option<f64> {
        mon().on_score(self.vector())
    }
    fn generate_basis(&self) -> Vec<StandardBasis> {
        let mut b: Vec<StandardBasis> = Vec::with_capacity(NP);
        let mut i = 0;
        while i < NP {
            if i < self.np {
                b.push(StandardBasis::new(&self.p[i], self.lo[i], self.hi[i]));
            }
            i += 1;
        }
        b
    }
    fn total_shapes(&self) -> usize {
        1
    }
    fn as_positions(&self) -> Result<String, anyhow::Error> {
        Ok(String::new())
    }
}

/// Run the real optimiser on the mock with `cfg`; returns after `finish`.
pub fn run(cfg: &Cfg, init: [f64; NP]) {
    let st = Mock::new(cfg, init);
    let mut b = packing::BuildOptimiser::default();
    b.steps(cfg.steps)
        .inner_steps(cfg.inner)
        .kt_start(cfg.kt_start)
        .kt_ratio(cfg.kt_ratio)
        .max_step_size(cfg.max_step)
        .seed(cfg.seed)
        .convergence(cfg.conv);
    // kt_finish == None is only constructible through StructOpt; the cfg(packing_verif) hook
    // `verif_set_kt_finish` (see MANIFEST.hooks) sets the private field directly.
    b.verif_set_kt_finish(cfg.kt_finish);
    let opt = b.build();
    let out = opt.optimise_state(st);
    let calls_in_opt = mon().calls;
    let last_equal = mon().last_equal;
    let props_in_opt = mon().proposals;
    // settle the optimiser's last step before observing, then observe the returned state
    // through State::score() (the only window the opaque `impl State` offers).
    mon().resolve();
    let saved_loops = (mon().in_loop, mon().loops_done);
    let _ = out.score();
    let m = mon();
    let fin = m.vecs[if m.calls > 0 { m.calls - 1 } else { 0 }];
    // the observation call is not a step of the optimiser
    m.pend = false;
    m.proposals = props_in_opt;
    m.in_loop = saved_loops.0;
    m.loops_done = saved_loops.1;
    m.calls = calls_in_opt;
    let n = if calls_in_opt > 0 { (calls_in_opt - 1) as u64 } else { 0 };
    m.finish(n, last_equal, fin);
    std::mem::forget(out);
}

