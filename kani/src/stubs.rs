//! Kani stubs for transcendental functions. Each is an over-approximation of the real
//! function that is *exact* on the IEEE special cases the optimiser's control flow depends on.
#![allow(static_mut_refs)]
use crate::monitor::{mon, MAXE, EXP_ONE_ABOVE, EXP_ZERO_BELOW};

/// f64::exp: exact on NaN, ±0, ±inf, and on arguments so negative that the true result is
/// exactly 0 or so close to 0 that it is exactly 1; in between the true result lies in (0,1)
/// for negative arguments and the stub returns one of the two extreme outcomes {0,1} chosen by
/// a pre-drawn symbolic bit (both make the acceptance test independent of the uniform draw).
pub fn exp_stub(x: f64) -> f64 {
    let m = mon();
    let k = m.exp_n;
    let r = if x != x {
        f64::NAN
    } else if x == 0. {
        1.
    } else if x == f64::NEG_INFINITY {
        0.
    } else if x == f64::INFINITY {
        f64::INFINITY
    } else if x < EXP_ZERO_BELOW {
        0.
    } else if x < 0. && x > EXP_ONE_ABOVE {
        1.
    } else if x < 0. {
        if k < MAXE && (m.exp_choice >> k) & 1 == 1 { 1. } else { 0. }
    } else {
        // x > 0: exp(x) >= 1 (exactly 1 for tiny x, +inf for huge x)
        if k < MAXE && (m.exp_choice >> k) & 1 == 1 { 1. } else { f64::INFINITY }
    };
    if k < MAXE {
        m.exp_arg[k] = x;
        m.exp_ret[k] = r;
        m.exp_n = k + 1;
    } else {
        m.flags.overflow = true;
    }
    r
}

/// f64::powf: exact on the special cases that matter to the cooling factor
/// (NaN operands, zero/infinite base, exponent 0, base 1); otherwise a pre-drawn
/// non-negative value. Arguments are logged.
pub fn powf_stub(b: f64, e: f64) -> f64 {
    let m = mon();
    m.powf_n += 1;
    m.powf_base = b;
    m.powf_exp = e;
    let r = if e == 0. {
        1.
    } else if b == 1. {
        1.
    } else if b != b || e != e {
        f64::NAN
    } else if b == 0. {
        if e > 0. { 0. } else { f64::INFINITY }
    } else if b == f64::INFINITY {
        if e > 0. { f64::INFINITY } else { 0. }
    } else if b < 0. {
        // negative base with (generically) non-integer exponent
        f64::NAN
    } else if e == f64::INFINITY {
        if b < 1. { 0. } else { f64::INFINITY }
    } else if e == f64::NEG_INFINITY {
        if b < 1. { f64::INFINITY } else { 0. }
    } else {
        m.powf_choice
    };
    m.powf_ret = r;
    r
}

/// std::fmt::format: messages on panic/error paths are not the subject.
pub fn format_stub(_args: std::fmt::Arguments<'_>) -> String {
    String::new()
}
