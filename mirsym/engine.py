"""Glue: dump MIR from /repo, build an Executor, helpers to make symbolic inputs, run z3."""
import os, re, subprocess, time, hashlib, json, sys
sys.path.insert(0, os.path.dirname(os.path.abspath(__file__)))
import terms as T
from mirparse import parse_mir
from mirexec import Executor, State, Agg, Enum, Ref, FnItem, Unsupported, mk_enum, Frame, AllPathsDiverge
import summaries as BI

VERIF = os.path.dirname(os.path.dirname(os.path.abspath(__file__)))
TARGET = os.path.join(VERIF, "target")
MIRDIR = os.path.join(TARGET, "mir")
REPO = os.environ.get("VERIF_REPO", "/repo")


def dump_mir(force=False):
    """Regenerate the MIR dump from /repo's current working tree (always rebuilt: the crate's
    fingerprint is removed so that cargo cannot answer with an empty re-run)."""
    os.makedirs(MIRDIR, exist_ok=True)
    out = os.path.join(MIRDIR, "packing.mir")
    # content hash of sources -> skip the 35 s build when nothing changed *within this process tree*
    h = hashlib.sha256()
    for root, _, files in sorted(os.walk(os.path.join(REPO, "src"))):
        for f in sorted(files):
            h.update(open(os.path.join(root, f), "rb").read())
    h.update(open(os.path.join(REPO, "Cargo.toml"), "rb").read())
    digest = h.hexdigest()
    stamp = os.path.join(MIRDIR, "stamp")
    if not force and os.path.exists(out) and os.path.exists(stamp) and open(stamp).read() == digest:
        return out, digest, 0.0
    t0 = time.time()
    env = dict(os.environ, CARGO_TARGET_DIR=MIRDIR, CARGO_NET_OFFLINE="true")
    # make cargo re-run rustc for the lib
    fp = os.path.join(MIRDIR, "debug", ".fingerprint")
    if os.path.isdir(fp):
        for d in os.listdir(fp):
            if d.startswith("packing-"):
                subprocess.run(["rm", "-rf", os.path.join(fp, d)])
    p = subprocess.run(["cargo", "+nightly", "rustc", "--offline", "--manifest-path", os.path.join(REPO, "Cargo.toml"),
                        "--lib", "--", "-Zunpretty=mir", "-C", "overflow-checks=on"],
                       env=env, stdout=subprocess.PIPE, stderr=subprocess.PIPE, text=True)
    if p.returncode != 0 or len(p.stdout) < 1000:
        raise RuntimeError("MIR dump failed:\n" + p.stderr[-3000:])
    open(out, "w").write(p.stdout)
    open(stamp, "w").write(digest)
    return out, digest, time.time() - t0


def crate_enums():
    """simple fieldless enums declared in the crate's sources: name -> [variants]"""
    out = {}
    for root, _, files in os.walk(os.path.join(REPO, "src")):
        for f in files:
            s = open(os.path.join(root, f)).read()
            for m in re.finditer(r"enum\s+(\w+)\s*\{([^}]*)\}", s):
                body = re.sub(r"//.*", "", m.group(2))
                vs = [v.strip() for v in body.split(",") if v.strip()]
                if all(re.fullmatch(r"\w+", v) for v in vs) and vs:
                    out[m.group(1)] = vs
    return out


_cache = {}


LOADED = []


def load(generics=None, force=False):
    path, digest, secs = dump_mir(force)
    if digest not in _cache:
        _cache[digest] = parse_mir(open(path).read())
    fns = _cache[digest]
    ex = Executor(fns, BI.B, crate_enums(), generics or {})
    # a symbolic float cast to an integer (the size-based shell count of check_intersection) is followed for
    # these values; whatever lies outside is dropped and reported as a bound (ex.cast_dropped)
    ex.int_cast_range = (0, 3)
    ex.cast_dropped = []
    LOADED.append(ex)
    ex.mir_digest = digest
    ex.mir_secs = secs
    return ex


def find_fn(ex, pattern):
    rx = re.compile(pattern)
    c = [f for f in ex.fns if rx.search(f.name)]
    if len(c) != 1:
        raise Unsupported("function pattern %r matches %d: %s" % (pattern, len(c), [f.name for f in c][:5]))
    return c[0]


def run(ex, fn, args, pc=None):
    """Run fn on args (values); arguments that must be passed by reference are placed in a root
    frame.  Returns (retval, path-condition list, state)."""
    st = State()
    root = Frame(fn, {})
    root.locals = {}
    st.frames.append(root)
    if pc:
        st.pc = list(pc)
    argv = []
    for i, a in enumerate(args):
        if isinstance(a, ByRef):
            root.locals[1000 + i] = a.v
            argv.append(Ref(0, 1000 + i, ()))
        else:
            argv.append(a)
    st, rv = ex.call_fn(st, fn, argv, ex.generics)
    return rv, st.pc, st


class ByRef:
    def __init__(self, v):
        self.v = v


# ----------------------------------------------------------------------------------- values

def fvar(name):
    return T.var(name, "F")


def sym_point(p):
    return Agg("struct:Point", [fvar(p + "x"), fvar(p + "y")])


def shared(v):
    return Agg("struct:SharedValue", [Agg("struct:UnsafeCell", [v])])


# ----------------------------------------------------------------------------------- solvers

Z3 = os.environ.get("VERIF_Z3", "/usr/bin/z3")


def solve(script, timeout_s=60, solver="portfolio"):
    """-> (status 'sat'|'unsat'|'unknown'|'error', model dict, seconds, raw)
    portfolio: /usr/bin/z3 (4.8.12) and z3-new (5.1.0) race; the first decisive answer wins.  Their
    nlsat implementations have very different blind spots on these queries."""
    if solver == "portfolio":
        return solve_portfolio(script, timeout_s)
    t0 = time.time()
    if solver == "z3":
        cmd = [Z3, "-in", "-smt2", "-T:%d" % timeout_s]
    elif solver == "z3new":
        cmd = ["z3-new", "-in", "-smt2", "-T:%d" % timeout_s]
    else:
        cmd = ["cvc5", "--lang", "smt2", "--tlimit=%d" % (timeout_s * 1000), "--produce-models", "--nl-cov"]
        script = "\n".join(l for l in script.split("\n") if "pp.decimal" not in l)
    try:
        p = subprocess.run(cmd, input=script, stdout=subprocess.PIPE, stderr=subprocess.PIPE, text=True,
                           timeout=timeout_s + 10)
        out = p.stdout
    except subprocess.TimeoutExpired:
        return "unknown", {}, time.time() - t0, "timeout"
    dt = time.time() - t0
    first = out.strip().split("\n")[0].strip() if out.strip() else ""
    if "(error" in out and first != "sat":
        # an error line before the verdict makes the verdict meaningless
        if not (first in ("sat", "unsat") and out.index("(error") > out.index(first)):
            return "error", {}, dt, out
    if first == "unsat":
        return "unsat", {}, dt, out
    if first == "sat":
        return "sat", parse_model(out), dt, out
    if first in ("unknown", "timeout"):
        return "unknown", {}, dt, out
    return "error", {}, dt, out


def solve_portfolio(script, timeout_s):
    import tempfile
    t0 = time.time()
    procs = []
    for name, cmd in (("z3", [Z3, "-in", "-smt2", "-T:%d" % timeout_s]), ("z3new", ["z3-new", "-in", "-smt2", "-T:%d" % timeout_s])):
        try:
            p = subprocess.Popen(cmd, stdin=subprocess.PIPE, stdout=subprocess.PIPE, stderr=subprocess.DEVNULL, text=True)
            p.stdin.write(script)
            p.stdin.close()
            procs.append((name, p))
        except OSError:
            pass
    result = None
    pending = dict(procs)
    outs = {}
    while pending and time.time() - t0 < timeout_s + 10:
        for name, p in list(pending.items()):
            if p.poll() is not None:
                outs[name] = p.stdout.read()
                del pending[name]
                st = classify(outs[name])
                if st[0] in ("sat", "unsat"):
                    result = (st[0], st[1], time.time() - t0, name + ": " + outs[name][:1500])
                    break
        if result:
            break
        time.sleep(0.01)
    for name, p in pending.items():
        try:
            p.kill()
            p.wait(timeout=2)
        except Exception:
            pass
    if result:
        return result
    if any(classify(o)[0] == "error" for o in outs.values()) and not any(classify(o)[0] == "unknown" for o in outs.values()):
        return "error", {}, time.time() - t0, " | ".join(o[:500] for o in outs.values())
    return "unknown", {}, time.time() - t0, "timeout/unknown: " + " | ".join(o[:200] for o in outs.values())


def classify(out):
    first = out.strip().split("\n")[0].strip() if out.strip() else ""
    if "(error" in out and first not in ("sat", "unsat"):
        return ("error", {})
    if first in ("sat", "unsat") and "(error" in out and out.index("(error") < out.index(first):
        return ("error", {})
    if first == "unsat":
        return ("unsat", {})
    if first == "sat":
        return ("sat", parse_model(out))
    if first in ("unknown", "timeout"):
        return ("unknown", {})
    return ("error", {})


def parse_model(out):
    model = {}
    body = out[out.index("sat") + 3:]
    for m in re.finditer(r"\((\w+)\s+((?:\([^()]*(?:\([^()]*\)[^()]*)*\))|[^\s()]+)\)", body):
        model[m.group(1)] = parse_num(m.group(2))
    return model


def parse_num(s):
    s = s.strip()
    if s in ("true", "false"):
        return s == "true"
    s2 = s.replace("?", "")
    m = re.fullmatch(r"\(-\s*(.*)\)", s2)
    if m:
        v = parse_num(m.group(1))
        return -v if v is not None else None
    m = re.fullmatch(r"\(/\s*(\S+)\s+(\S+)\)", s2)
    if m:
        return float(m.group(1)) / float(m.group(2))
    try:
        return float(s2)
    except ValueError:
        return None
