"""Symbolic executor for the MIR subset of this crate.

Control is concrete wherever the code's control is concrete (iterator lengths, loop counters,
enum tags of constructed values); floats (and selected ints/bools) are symbolic terms.  At a
branch on a symbolic condition the state forks; forks are re-merged (ite on values, or on path
conditions) at function return and at loop heads, so straight-line kernels called many times
inside iterator pipelines do not multiply paths.

Anything outside the supported subset raises Unsupported(location) -> the obligation is
*inconclusive*; it never becomes a violation or a silent pass.
"""
import copy, re, sys
from mirparse import parse_mir, Place
import terms as T

sys.setrecursionlimit(20000)


class Unsupported(Exception):
    pass


class AllPathsDiverge(Exception):
    pass


class Poison:
    def __repr__(self):
        return "<poison>"

    def __deepcopy__(self, memo):
        return self


POISON = Poison()


class Agg:
    """struct / tuple / array / vec / closure value"""
    __slots__ = ("kind", "fields")

    def __init__(self, kind, fields):
        self.kind = kind
        self.fields = fields

    def __repr__(self):
        return "%s%r" % (self.kind, self.fields)

    def __eq__(self, o):
        return isinstance(o, Agg) and self.kind == o.kind and self.fields == o.fields

    def __hash__(self):
        return id(self)


class Enum:
    """enum value; alts = [(cond, variant_name, fields)], conds exclusive+exhaustive"""
    __slots__ = ("ty", "alts")

    def __init__(self, ty, alts):
        self.ty = ty
        self.alts = alts

    def __repr__(self):
        return "%s::%r" % (self.ty, [(T.show(c) if T.is_t(c) else c, v, f) for c, v, f in self.alts])

    def __eq__(self, o):
        return isinstance(o, Enum) and self.ty == o.ty and self.alts == o.alts

    def __hash__(self):
        return id(self)

    def concrete(self):
        return len(self.alts) == 1


def mk_enum(ty, variant, fields):
    return Enum(ty, [(True, variant, list(fields))])


class Ref:
    __slots__ = ("depth", "local", "path")

    def __init__(self, depth, local, path=()):
        self.depth, self.local, self.path = depth, local, tuple(path)

    def __repr__(self):
        return "&%d:_%d%s" % (self.depth, self.local, "".join(".%s" % (p,) for p in self.path))

    def __eq__(self, o):
        return isinstance(o, Ref) and (self.depth, self.local, self.path) == (o.depth, o.local, o.path)

    def __hash__(self):
        return hash((self.depth, self.local, self.path))


class FnItem:
    __slots__ = ("name",)

    def __init__(self, name):
        self.name = name

    def __repr__(self):
        return "fn{%s}" % self.name

    def __eq__(self, o):
        return isinstance(o, FnItem) and self.name == o.name

    def __hash__(self):
        return hash(self.name)


class Frame:
    __slots__ = ("fn", "block", "idx", "locals", "generics")

    def __init__(self, fn, generics):
        self.fn = fn
        self.block = 0
        self.idx = 0
        self.locals = {}
        self.generics = generics


class State:
    __slots__ = ("frames", "pc")

    def __init__(self):
        self.frames = []
        self.pc = []

    def fork(self):
        """Values are immutable (stores rebuild the path), so a fork copies only the local maps."""
        s = State()
        fs = []
        for f in self.frames:
            nf = Frame(f.fn, f.generics)
            nf.block, nf.idx = f.block, f.idx
            nf.locals = dict(f.locals)
            fs.append(nf)
        s.frames = fs
        s.pc = list(self.pc)
        return s


# Fn objects are shared, never copied
from mirparse import Fn as _Fn
_Fn.__deepcopy__ = lambda self, memo: self


ENUM_VARIANTS = {
    "Option": ["None", "Some"],
    "Result": ["Ok", "Err"],
    "Ordering": ["Less", "Equal", "Greater"],
    "ControlFlow": ["Continue", "Break"],
}
ENUM_DISCR = {"Ordering": {"Less": -1, "Equal": 0, "Greater": 1}}


def norm_ty(s):
    s = re.sub(r"'\w+\s*", "", s)
    s = re.sub(r"\s+", "", s)
    s = s.replace("std::option::Option", "Option").replace("std::vec::Vec", "Vec")
    return s


def enum_name_of(ctor):
    """'Option::<f64>::Some' -> ('Option','Some');  'cell::CrystalFamily::Monoclinic' -> ('CrystalFamily','Monoclinic')"""
    c = re.sub(r"::<.*?>(?=::|$)", "", ctor_strip_generics(ctor))
    parts = c.split("::")
    if len(parts) >= 2:
        return parts[-2], parts[-1]
    return None, parts[-1]


def ctor_strip_generics(s):
    out, d = [], 0
    i = 0
    while i < len(s):
        c = s[i]
        if c == "<":
            d += 1
        elif c == ">" and not (i > 0 and s[i - 1] in "-="):
            d -= 1
        elif d == 0:
            out.append(c)
        i += 1
    return re.sub(r"::(?=::)", "", "".join(out)).replace("::::", "::")


class Executor:
    def __init__(self, fns, builtins, crate_enums=None, generics=None, trace=False):
        self.fns = fns
        self.by_name = {}
        for f in fns:
            self.by_name.setdefault(f.name, []).append(f)
        self.index = {}
        for f in fns:
            short = f.name.split("::")[-1]
            self.index.setdefault(short, []).append(f)
        self.builtins = builtins  # list of (regex, handler)
        self.enums = dict(ENUM_VARIANTS)
        if crate_enums:
            self.enums.update(crate_enums)
        self.generics = generics or {}
        self.panics = []   # (pc list, message, fn name, block)
        self.trace = trace
        self.loopheads = {}
        self.stats = {"stmts": 0, "forks": 0, "merges": 0, "calls": 0, "fns": set()}
        self.fresh = 0
        self.call_log = []
        self._rescache = {}
        self._promoted_vals = {}

    # ------------------------------------------------------------------ utilities
    def fresh_var(self, base, sort):
        self.fresh += 1
        return T.var("%s_%d" % (base, self.fresh), sort)

    def loop_heads(self, fn):
        lh = self.loopheads.get(fn.name)
        if lh is not None:
            return lh
        heads = set()
        color = {}
        succ = {}
        for b, sts in fn.blocks.items():
            if b in fn.cleanup:
                continue
            t = sts[-1] if sts else None
            s = []
            if t:
                if t[0] == "goto":
                    s = [t[1]]
                elif t[0] == "switch":
                    s = [x[1] for x in t[2]]
                elif t[0] == "drop":
                    s = [t[2]]
                elif t[0] == "assert":
                    s = [t[4]]
                elif t[0] == "call":
                    s = [t[4]] if t[4] is not None else []
            succ[b] = [x for x in s if x is not None and x not in fn.cleanup]
        stack = [(0, iter(succ.get(0, [])))]
        color[0] = 1
        while stack:
            b, it = stack[-1]
            adv = False
            for n in it:
                if color.get(n, 0) == 0:
                    color[n] = 1
                    stack.append((n, iter(succ.get(n, []))))
                    adv = True
                    break
                elif color.get(n) == 1:
                    heads.add(n)
            if not adv:
                color[b] = 2
                stack.pop()
        self.loopheads[fn.name] = heads
        return heads

    # ------------------------------------------------------------------ memory
    def read_local(self, st, depth, local):
        fr = st.frames[depth]
        if local not in fr.locals:
            raise Unsupported("read of unset local _%d in %s" % (local, fr.fn.name))
        v = fr.locals[local]
        if v is POISON:
            raise Unsupported("read of merged-away (poison) local _%d in %s bb%d" % (local, fr.fn.name, fr.block))
        return v

    def resolve_place(self, st, place, depth=None):
        """-> Ref (depth, local, path) pointing at the storage the place denotes"""
        if depth is None:
            depth = len(st.frames) - 1
        cur = Ref(depth, place.local, ())
        for p in place.proj:
            if p == "deref":
                v = self.load(st, cur)
                if not isinstance(v, Ref):
                    raise Unsupported("deref of non-reference %r" % (v,))
                cur = v
            elif p[0] == "field":
                cur = Ref(cur.depth, cur.local, cur.path + (p[1],))
            elif p[0] == "downcast":
                cur = Ref(cur.depth, cur.local, cur.path + (("v", p[1]),))
            elif p[0] == "index":
                cur = Ref(cur.depth, cur.local, cur.path + (p[1],))
            elif p[0] == "index_local":
                i = self.read_local(st, depth, p[1])
                if T.is_t(i):
                    raise Unsupported("symbolic index")
                cur = Ref(cur.depth, cur.local, cur.path + (i,))
            else:
                raise Unsupported("projection %r" % (p,))
        return cur

    def load(self, st, ref):
        v = self.read_local(st, ref.depth, ref.local)
        for p in ref.path:
            v = self.project(v, p)
        if v is POISON:
            raise Unsupported("read of poison through %r" % (ref,))
        return v

    def project(self, v, p):
        if isinstance(p, tuple) and p[0] == "v":
            if not isinstance(v, Enum):
                raise Unsupported("downcast of non-enum %r" % (v,))
            alts = [(c, f) for c, vn, f in v.alts if vn == p[1]]
            if not alts:
                raise Unsupported("downcast to absent variant %s of %r" % (p[1], v))
            if len(alts) == 1:
                return Agg("variant", alts[0][1])
            n = len(alts[0][1])
            return Agg("variant", [merge_values([(c, f[i]) for c, f in alts]) for i in range(n)])
        if p == "coords":
            if isinstance(v, Agg) and v.kind == "struct:Point":
                return Agg("struct:Vec2", list(v.fields))
            if isinstance(v, Agg) and v.fields:
                return v.fields[0]
            raise Unsupported("coords of %r" % (v,))
        if isinstance(v, Agg):
            if p >= len(v.fields):
                raise Unsupported("field %r out of range in %r" % (p, v))
            return v.fields[p]
        if isinstance(v, Ref):
            raise Unsupported("projection through unresolved ref")
        raise Unsupported("projection %r of %r" % (p, v))

    def store(self, st, ref, val):
        fr = st.frames[ref.depth]
        if not ref.path:
            fr.locals[ref.local] = val
            return
        root = fr.locals.get(ref.local)
        fr.locals[ref.local] = self._store_path(root, ref.path, val)

    def _store_path(self, v, path, val):
        """functional update: returns a new value equal to v with `path` replaced by val"""
        if not path:
            return val
        p = path[0]
        if isinstance(p, tuple) and p[0] == "v":
            if isinstance(v, Enum) and v.concrete() and v.alts[0][1] == p[1]:
                inner = Agg("variant", v.alts[0][2])
                new = self._store_path(inner, path[1:], val)
                return Enum(v.ty, [(True, p[1], new.fields)])
            raise Unsupported("store through downcast of %r" % (v,))
        if v is None or v is POISON:
            v = Agg("partial", [])
        if not isinstance(v, Agg):
            raise Unsupported("store into %r" % (v,))
        fields = list(v.fields)
        while len(fields) <= p:
            fields.append(POISON)
        fields[p] = self._store_path(fields[p], path[1:], val)
        return Agg(v.kind, fields)

    # ------------------------------------------------------------------ operands / rvalues
    def eval_operand(self, st, op):
        k = op[0]
        if k in ("copy", "move"):
            ref = self.resolve_place(st, op[1])
            v = self.load(st, ref)
            return v  # values are immutable
        if k == "const":
            return self.eval_const(st, op[1], op[2])
        raise Unsupported("operand %r" % (op,))

    NAMED_CONSTS = {
        "std::f64::consts::PI": 3.141592653589793,
        "PI": 3.141592653589793,
        "std::f64::MIN": -1.7976931348623157e308,
        "f64::MIN": -1.7976931348623157e308,
        "std::f64::EPSILON": 2.220446049250313e-16,
        "i64::MIN": -(2 ** 63), "i64::MAX": 2 ** 63 - 1, "u64::MAX": 2 ** 64 - 1, "usize::MAX": 2 ** 64 - 1,
        "<f64 as std::mem::SizedTypeProperties>::ALIGN": 8,
        "<f64 as std::mem::SizedTypeProperties>::SIZE": 8,
    }

    def eval_const(self, st, kind, val):
        if kind in ("f64",):
            return float(val)
        if kind in ("bool",):
            return val
        if kind == "unit":
            return Agg("tuple", [])
        if kind == "char":
            return val
        if kind == "str":
            return Agg("str", [val])
        if kind == "named":
            if val in self.NAMED_CONSTS:
                return self.NAMED_CONSTS[val]
            if re.search(r"as std::mem::SizedTypeProperties>::(ALIGN|SIZE)$", val):
                return 8
            if re.search(r"::promoted\[\d+\]$", val):
                return self.eval_promoted(st, val)
            m = re.match(r"^ZeroSized: (.*)$", val)
            if m:
                v = m.group(1)
                if v.startswith("{closure@"):
                    return Agg("closure:" + closure_id(v), [])
                return FnItem(v)
            ty, vn = enum_name_of(val)
            if ty in self.enums and vn in self.enums[ty]:
                return mk_enum(ty, vn, [])
            return FnItem(val)
        return val  # integers

    def eval_promoted(self, st, name):
        """promoted constant: run its body once, keep the value in a root-frame slot"""
        tail = "::".join(ctor_strip_generics(name).split("::")[-2:])
        mod = name.split("::")[0]
        cands = [f for f in self.fns if not f.args and f.name.endswith(tail) and "promoted[" in f.name]
        c2 = [f for f in cands if f.name.split("::")[0] == mod] or cands
        if len(c2) != 1:
            raise Unsupported("promoted constant %s: %d candidates" % (name, len(c2)))
        fn = c2[0]
        depth = len(st.frames)
        s2, rv = self.call_fn(st, fn, [], {})
        # call_fn popped the frame; a reference into it must be re-homed
        if isinstance(rv, Ref) and rv.depth == depth:
            # the referenced local was in the popped frame: re-run keeping the frame's locals
            fr = Frame(fn, {})
            st.frames.append(fr)
            tmp = st
            for b in sorted(fn.blocks):
                pass
            st.frames.pop()
            val = self._promoted_vals.get((fn.name, rv.local))
            if val is None:
                raise Unsupported("promoted constant %s returns a reference into its own frame" % name)
            self.fresh += 1
            slot = 700000 + self.fresh
            st.frames[0].locals[slot] = val
            return Ref(0, slot, rv.path)
        return rv

    def cast_arms(self, v, rng):
        """(condition, integer) arms of `v as iN` (truncation toward zero) for the integers in rng"""
        lo, hi = rng
        arms = []
        if v.op == "fceil":
            y = v.args[0]
            for n in range(lo, hi + 1):
                arms.append((T.band(T.fcmp("flt", float(n - 1), y), T.fcmp("fle", y, float(n))), n))
            return arms
        for n in range(lo, hi + 1):
            if n == 0:
                c = T.band(T.fcmp("flt", -1.0, v), T.fcmp("flt", v, 1.0))
            elif n > 0:
                c = T.band(T.fcmp("fle", float(n), v), T.fcmp("flt", v, float(n + 1)))
            else:
                c = T.band(T.fcmp("flt", float(n - 1), v), T.fcmp("fle", v, float(n)))
            arms.append((c, n))
        return arms

    def eval_rvalue(self, st, rv):
        k = rv[0]
        if k == "use":
            return self.eval_operand(st, rv[1])
        if k == "binop":
            a = self.eval_operand(st, rv[2])
            b = self.eval_operand(st, rv[3])
            return self.binop(rv[1], a, b)
        if k == "unop":
            a = self.eval_operand(st, rv[2])
            if rv[1] == "Neg":
                if isinstance(a, float) or (T.is_t(a) and a.sort == "F"):
                    return T.fun("fneg", a)
                if T.is_t(a):
                    return T.ibin("isub", 0, a)
                return -a
            if rv[1] == "Not":
                if isinstance(a, bool) or (T.is_t(a) and a.sort == "B"):
                    return T.bnot(a)
                raise Unsupported("bitwise not")
            if rv[1] == "PtrMetadata":
                tgt = self.load(st, a) if isinstance(a, Ref) else a
                if isinstance(tgt, Agg):
                    return len(tgt.fields)
                raise Unsupported("PtrMetadata of %r" % (tgt,))
            raise Unsupported("unop " + rv[1])
        if k == "ref":
            return self.resolve_place(st, rv[2])
        if k == "aggregate":
            return self.aggregate(st, rv)
        if k == "discriminant":
            v = self.load(st, self.resolve_place(st, rv[1]))
            return self.discriminant(v)
        if k == "cast":
            v = self.eval_operand(st, rv[2])
            ck = rv[1]
            if ck == "IntToFloat":
                return T.i2f(v)
            if ck in ("IntToInt",):
                return v
            if ck == "Transmute" and isinstance(v, Ref) and rv[3].strip() == "usize":
                return 4096  # address of a valid, aligned object (debug-build pointer checks)
            if ck.startswith("PointerCoercion") or ck in ("Transmute", "PtrToPtr"):
                return v
            if ck == "FloatToInt":
                if T.is_t(v):
                    raise Unsupported("symbolic float->int cast")
                return int(v)
            raise Unsupported("cast " + ck)
        if k == "len":
            v = self.load(st, self.resolve_place(st, rv[1]))
            return len(v.fields)
        if k == "repeat":
            v = self.eval_operand(st, rv[1])
            return Agg("array", [v for _ in range(rv[2])])
        raise Unsupported("rvalue %r" % (rv,))

    def discriminant(self, v):
        if not isinstance(v, Enum):
            raise Unsupported("discriminant of %r" % (v,))
        names = self.enums.get(v.ty)
        if names is None:
            raise Unsupported("unknown enum " + v.ty)
        dmap = ENUM_DISCR.get(v.ty)

        def idx(vn):
            return dmap[vn] if dmap else names.index(vn)
        if v.concrete():
            return idx(v.alts[0][1])
        out = idx(v.alts[-1][1])
        for c, vn, f in reversed(v.alts[:-1]):
            out = T.ite(c, idx(vn), out)
        return out

    def aggregate(self, st, rv):
        _, kind, name, fields = rv
        if kind == "tuple":
            return Agg("tuple", [self.eval_operand(st, f) for f in fields])
        if kind == "array":
            return Agg("array", [self.eval_operand(st, f) for f in fields])
        if kind == "struct":
            vals = [self.eval_operand(st, f[1]) for f in fields]
            if name.startswith("{closure@"):
                return Agg("closure:" + closure_id(name), vals)
            ty, vn = enum_name_of(name)
            if ty in self.enums and vn in self.enums[ty]:
                return mk_enum(ty, vn, vals)
            if re.search(r"(^|::)ops::Range(::<.*>)?$", name):
                return Agg("iter:range", vals)
            return Agg("struct:" + ctor_strip_generics(name).split("::")[-1], vals)
        if kind == "ctor":
            vals = [self.eval_operand(st, f) for f in fields]
            ty, vn = enum_name_of(name)
            if ty in self.enums and vn in self.enums[ty]:
                return mk_enum(ty, vn, vals)
            return Agg("struct:" + vn, vals)
        raise Unsupported("aggregate " + kind)

    def binop(self, op, a, b):
        isf = isinstance(a, float) or isinstance(b, float) or (T.is_t(a) and a.sort == "F") or (T.is_t(b) and b.sort == "F")
        isb = isinstance(a, bool) or (T.is_t(a) and a.sort == "B")
        if isf:
            m = {"Add": "fadd", "Sub": "fsub", "Mul": "fmul", "Div": "fdiv", "Rem": "frem"}
            if op in m:
                return T.fbin(m[op], a, b)
            c = {"Lt": "flt", "Le": "fle", "Gt": "fgt", "Ge": "fge", "Eq": "feq", "Ne": "fne"}
            if op in c:
                return T.fcmp(c[op], a, b)
            raise Unsupported("float binop " + op)
        if isb:
            if op == "Eq":
                return T.beq(a, b)
            if op == "Ne":
                return T.bnot(T.beq(a, b))
            if op == "BitAnd":
                return T.band(a, b)
            if op == "BitOr":
                return T.bor(a, b)
            raise Unsupported("bool binop " + op)
        if isinstance(a, Enum) or isinstance(b, Enum):
            raise Unsupported("enum binop")
        m = {"Add": "iadd", "Sub": "isub", "Mul": "imul", "Div": "idiv", "Rem": "irem",
             "AddUnchecked": "iadd", "SubUnchecked": "isub", "MulUnchecked": "imul"}
        if op in m:
            r = T.ibin(m[op], a, b)
            if r is None:
                raise Unsupported("integer division by zero (concrete)")
            return r
        if op in ("AddWithOverflow", "SubWithOverflow", "MulWithOverflow"):
            r = T.ibin({"A": "iadd", "S": "isub", "M": "imul"}[op[0]], a, b)
            # overflow flag: concrete ints are checked against u64/i64 generously; symbolic -> False
            ov = False
            if not T.is_t(r):
                ov = not (-(2 ** 63) <= r < 2 ** 64)
            return Agg("tuple", [r, ov])
        c = {"Lt": "ilt", "Le": "ile", "Gt": "igt", "Ge": "ige", "Eq": "ieq", "Ne": "ine"}
        if op in c:
            return T.icmp(c[op], a, b)
        if op in ("BitAnd", "BitOr", "BitXor", "Shl", "Shr") and not T.is_t(a) and not T.is_t(b):
            return {"BitAnd": a & b, "BitOr": a | b, "BitXor": a ^ b, "Shl": a << b, "Shr": a >> b}[op]
        raise Unsupported("int binop " + op)

    # ------------------------------------------------------------------ call resolution
    def resolve_callee(self, st, callee, args):
        """-> ('mir', Fn, generics) | ('builtin', handler, match)"""
        fr = st.frames[-1] if st.frames else None
        gen = dict(self.generics)
        if fr is not None:
            gen.update(fr.generics)
        ck = (callee, tuple(sorted(gen.items())), len(args))
        hit = self._rescache.get(ck)
        if hit is not None:
            return hit
        r = self._resolve_callee(st, callee, args, gen)
        self._rescache[ck] = r
        return r

    def _resolve_callee(self, st, callee, args, gen):
        c = callee
        # substitute generic Self-type parameters bound for this run
        for g, ty in gen.items():
            c = re.sub(r"(?<![\w:])%s(?![\w:])" % re.escape(g), ty, c)
        for rx, h in self.builtins:
            m = rx.search(c)
            if m:
                return ("builtin", h, m, c)
        f = self.find_mir(c, args, st)
        if f is not None:
            return ("mir", f, gen, c)
        raise Unsupported("unresolved callee: %s" % c)

    def find_mir(self, c, args, st):
        # drop a trailing turbofish on the method:  ...::set_sampled::<Mcg128Xsl64>
        while c.endswith(">"):
            d = 0
            cut = None
            for i in range(len(c) - 1, -1, -1):
                if c[i] == ">" and not (i > 0 and c[i - 1] in "-="):
                    d += 1
                elif c[i] == "<":
                    d -= 1
                    if d == 0:
                        cut = i
                        break
            if cut is not None and c[:cut].endswith("::") and re.search(r"::\w+::$", c[:cut]):
                c = c[:cut - 2]
            else:
                break
        cs = ctor_strip_generics(c)
        # <A as Trait>::method   /  <A as Trait<B>>::method
        m = re.match(r"^<(.+?) as (.+?)>::(\w+)$", c)
        short = c.split("::")[-1]
        short = re.sub(r"<.*$", "", short)
        cands = self.index.get(short, [])
        if not cands:
            return None
        if m:
            selfty = norm_ty(m.group(1))
            trait = m.group(2)
            rhs = None
            mm = re.match(r"^\w+<(.+)>$", trait)
            if mm:
                rhs = norm_ty(mm.group(1))
            elif trait in ("Mul", "Add", "Sub", "Div"):
                rhs = selfty
            best = []

            def base(t):
                t = strip_mod(t).lstrip("&")
                t = re.sub(r"^mut", "", t)
                return re.sub(r"<.*$", "", t)
            if not args:
                z = [f for f in cands if not f.args and base(norm_ty(f.ret)) == base(selfty)]
                if len(z) == 1:
                    return z[0]
            if trait.startswith("From<") and short == "from":
                z = [f for f in cands if len(f.args) == 1 and base(norm_ty(f.ret)) == base(selfty) and base(norm_ty(f.args[0][1])) == base(rhs or "")]
                if len(z) == 1:
                    return z[0]
            for f in cands:
                if not f.args:
                    continue
                a0 = norm_ty(f.args[0][1])
                if strip_mod(a0) != strip_mod(selfty) and base(a0) != base(selfty):
                    continue
                if rhs is not None and len(f.args) > 1 and strip_mod(norm_ty(f.args[1][1])) != strip_mod(rhs):
                    continue
                # exact match on reference-ness preferred
                score = 2 if strip_mod(a0) == strip_mod(selfty) else 1
                best.append((score, f))
            if best:
                best.sort(key=lambda x: -x[0])
                top = [f for s, f in best if s == best[0][0]]
                # trait name disambiguation (Intersect::area vs ...): keep functions whose impl
                # block also defines sibling of the same trait -- not needed so far
                if len(top) == 1:
                    return top[0]
                # several impls (e.g. Shape::score vs State::score): choose by arity
                top = [f for f in top if len(f.args) == len(args)]
                if len(top) >= 1:
                    return top[0]
            return None
        # path call: module::Type::method  or Type::<..>::method
        parts = cs.split("::")
        if len(parts) >= 2:
            tyname = parts[-2]
            out = []
            for f in cands:
                if f.args:
                    a0 = strip_mod(norm_ty(f.args[0][1])).lstrip("&")
                    a0 = re.sub(r"^mut", "", a0)
                    a0 = re.sub(r"<.*$", "", a0)
                    if a0 == tyname and len(f.args) == len(args):
                        out.append(f)
            if len(out) == 1:
                return out[0]
            # associated functions without self: match on return type / module
            out2 = []
            for f in cands:
                r = re.sub(r"<.*$", "", strip_mod(norm_ty(f.ret)))
                modname = f.name.split("::")[0]
                if len(f.args) == len(args) and (r == tyname or "Result<" + tyname in strip_mod(norm_ty(f.ret)) or modname == parts[0]):
                    out2.append(f)
            if len(out) > 1:
                out2 = [f for f in out if f in out2] or out
            if len(out2) == 1:
                return out2[0]
            if len(out2) > 1:
                # prefer same module as the path's first segment
                o3 = [f for f in out2 if f.name.split("::")[0] == parts[0] or tyname.lower() in f.name.split("::")[0]]
                if len(o3) >= 1:
                    return o3[0]
        if len(cands) == 1 and len(cands[0].args) == len(args):
            return cands[0]
        return None

    # ------------------------------------------------------------------ execution
    def call_fn(self, st, fn, args, generics=None, collect=False):
        """Run `fn` to completion from `st` (all arms), merge, return (state, retval).
        collect=True: do not merge the returning arms; return [(state, retval), ...]."""
        self.stats["calls"] += 1
        self.stats["fns"].add(fn.name)
        depth = len(st.frames)
        fr = Frame(fn, dict(generics or {}))
        for (l, ty), v in zip(fn.args, args):
            fr.locals[l] = v
        st.frames.append(fr)
        heads = self.loop_heads(fn)
        active = [st]
        parked = {}
        returned = []
        while True:
            if active:
                s = active.pop()
            elif parked:
                groups = list(parked.values())
                parked = {}
                for g in groups:
                    mg = merge_states(g, self)
                    if self.trace:
                        print("release %s bb%d: %d -> %d" % (fn.name[-40:], g[0].frames[depth].block, len(g), len(mg)))
                    active.extend(mg)
                continue
            else:
                break
            others = lambda: bool(active or parked or returned)
            while True:
                f = s.frames[depth]
                stmts = fn.blocks[f.block]
                stt = stmts[f.idx]
                self.stats["stmts"] += 1
                k = stt[0]
                try:
                    self._cur = (fn.name, f.block, f.idx)
                    if k == "assign" and stt[2][0] == "cast" and stt[2][1] == "FloatToInt":
                        v = self.eval_operand(s, stt[2][2])
                        if T.is_t(v):
                            # a symbolic float becomes a loop bound: one arm per integer value inside the stated range;
                            # values outside it are dropped and recorded (part of the claim's bounds)
                            rng = getattr(self, "int_cast_range", None)
                            if rng is None:
                                raise Unsupported("symbolic float->int cast")
                            arms = self.cast_arms(v, rng)
                            if not hasattr(self, "cast_dropped"):
                                self.cast_dropped = []
                            self.cast_dropped.append(dict(fn=fn.name, range=rng, pc=list(s.pc), term=v))
                            self.stats["forks"] += 1
                            for i_, (cond, n_) in enumerate(arms):
                                s2 = s if i_ == len(arms) - 1 else s.fork()
                                s2.pc.append(cond)
                                self.store(s2, self.resolve_place(s2, stt[1]), n_)
                                s2.frames[depth].idx += 1
                                active.append(s2)
                            break
                    if k == "assign":
                        v = self.eval_rvalue(s, stt[2])
                        self.store(s, self.resolve_place(s, stt[1]), v)
                        f.idx += 1
                        continue
                except (Unsupported, AllPathsDiverge):
                    raise
                except Exception as e:
                    raise Unsupported("internal %s: %s at %s bb%d[%d] %r" % (type(e).__name__, e, fn.name, f.block, f.idx, stt))
                if k == "assign":
                    v = self.eval_rvalue(s, stt[2])
                    self.store(s, self.resolve_place(s, stt[1]), v)
                    f.idx += 1
                elif k == "nop":
                    f.idx += 1
                elif k == "goto":
                    if self._jump(s, f, stt[1], heads, others, parked):
                        break
                elif k == "switch":
                    v = self.eval_operand(s, stt[1])
                    if isinstance(v, bool):
                        v = int(v)
                    if not T.is_t(v):
                        tgt = None
                        for key, b in stt[2]:
                            if key == "otherwise":
                                if tgt is None:
                                    tgt = b
                            elif int(key) == v:
                                tgt = b
                                break
                        if self._jump(s, f, tgt, heads, others, parked):
                            break
                    else:
                        self.stats["forks"] += 1
                        arms = []
                        taken = []
                        for key, b in stt[2]:
                            if key == "otherwise":
                                cond = T.band(*[T.bnot(c) for c in taken]) if taken else True
                            else:
                                kk = int(key)
                                if v.sort == "B":
                                    cond = v if kk == 1 else T.bnot(v)
                                else:
                                    cond = T.icmp("ieq", v, kk)
                                taken.append(cond)
                            if cond is False:
                                continue
                            arms.append((cond, b))
                        for i, (cond, b) in enumerate(arms):
                            s2 = s if i == len(arms) - 1 else s.fork()
                            if cond is not True:
                                s2.pc.append(cond)
                            f2 = s2.frames[depth]
                            f2.block, f2.idx = b, 0
                            if b in heads and not getattr(self, "no_loop_merge", False):
                                parked.setdefault(b, []).append(s2)
                            else:
                                active.append(s2)
                        break
                elif k == "call":
                    dest, callee, ops, ret = stt[1], stt[2], stt[3], stt[4]
                    argv = [self.eval_operand(s, o) for o in ops]
                    res = self.resolve_callee(s, callee, argv)
                    try:
                        if res[0] == "mir":
                            s, rv = self.call_fn(s, res[1], argv, res[2])
                        else:
                            out = res[1](self, s, argv, res[2], res[3])
                            if isinstance(out, tuple) and len(out) == 2 and isinstance(out[0], State):
                                s, rv = out
                            else:
                                rv = out
                    except AllPathsDiverge:
                        break
                    f = s.frames[depth]
                    if ret is None:
                        break  # diverging call
                    self.store(s, self.resolve_place(s, dest), rv)
                    if self._jump(s, f, ret, heads, others, parked):
                        break
                elif k == "return":
                    returned.append(s)
                    break
                elif k == "drop":
                    ref = self.resolve_place(s, stt[1])
                    if not ref.path:
                        s.frames[ref.depth].locals[ref.local] = POISON
                    if self._jump(s, f, stt[2], heads, others, parked):
                        break
                elif k == "assert":
                    v = self.eval_operand(s, stt[1])
                    ok = v if stt[2] else T.bnot(v)
                    if ok is True:
                        pass
                    elif ok is False:
                        self.panics.append((list(s.pc), stt[3], fn.name, f.block))
                        break
                    else:
                        self.panics.append((list(s.pc) + [T.bnot(ok)], stt[3], fn.name, f.block))
                        s.pc.append(ok)
                    if self._jump(s, f, stt[4], heads, others, parked):
                        break
                elif k == "diverge":
                    self.panics.append((list(s.pc), "diverging call " + stt[1], fn.name, f.block))
                    break
                elif k == "unreachable":
                    self.panics.append((list(s.pc), "unreachable", fn.name, f.block))
                    break
                else:
                    raise Unsupported("statement %r in %s bb%d" % (stt[:2], fn.name, f.block))
        if collect:
            out = []
            for s in returned:
                fr = s.frames.pop()
                out.append((s, fr.locals.get(0, Agg("tuple", []))))
            return out
        if not returned:
            raise AllPathsDiverge(fn.name)
        merged = merge_states(returned, self, at_return=True)
        if len(merged) != 1:
            raise Unsupported("arms of %s do not merge at return (%d groups)" % (fn.name, len(merged)))
        s = merged[0]
        fr = s.frames.pop()
        if "promoted[" in fn.name:
            for l, v in list(fr.locals.items()):
                self._promoted_vals[(fn.name, l)] = v
        rv = fr.locals.get(0, Agg("tuple", []))
        if rv is POISON and fn.ret.strip() == "()":
            rv = Agg("tuple", [])
        if rv is POISON:
            raise Unsupported("poison return value from " + fn.name)
        return s, rv

    def _jump(self, s, f, b, heads, others, parked):
        """set position; park at loop heads when other arms exist. Returns True if parked."""
        f.block, f.idx = b, 0
        if b in heads and others() and not getattr(self, "no_loop_merge", False):
            parked.setdefault(b, []).append(s)
            return True
        return False


def closure_id(s):
    m = re.search(r"\{closure@([^}]*)\}", s)
    return m.group(1).strip() if m else s


def strip_mod(s):
    """drop module paths from a normalised type string:  &transform::Transform2 -> &Transform2"""
    return re.sub(r"(?:\w+::)+(?=\w)", "", s)


# ---------------------------------------------------------------------- merging

def common_prefix(pcs):
    n = min(len(p) for p in pcs)
    i = 0
    while i < n and all(p[i] is pcs[0][i] for p in pcs):
        i += 1
    return i


def merge_values(cvs, strict=False):
    """cvs: list of (cond, value); conds exclusive. -> merged value or POISON.
    strict: differing concrete integers / iterator objects raise NoMerge instead."""
    vals = [v for c, v in cvs]
    v0 = vals[0]
    if all(_same(v0, v) for v in vals[1:]):
        return v0
    if any(v is POISON for v in vals):
        return POISON
    if strict and all(isinstance(v, int) and not isinstance(v, bool) for v in vals):
        raise NoMerge()
    if strict and all(isinstance(v, Agg) and v.kind.startswith("iter") for v in vals):
        raise NoMerge()
    if strict and all(isinstance(v, Ref) for v in vals):
        raise NoMerge()
    if all(isinstance(v, (bool, int, float)) or T.is_t(v) for v in vals):
        # scalar kinds must agree
        out = vals[-1]
        for c, v in reversed(cvs[:-1]):
            out = T.ite(c, v, out)
        return out
    if all(isinstance(v, Agg) for v in vals):
        if all(v.kind == v0.kind and len(v.fields) == len(v0.fields) for v in vals) and not v0.kind.startswith("iter"):
            return Agg(v0.kind, [merge_values([(c, v.fields[i]) for c, v in cvs], strict) for i in range(len(v0.fields))])
        if strict and all(v.kind.startswith("iter") or v.kind in ("vec", "log", "monitor") for v in vals):
            raise NoMerge()
        if any(v.kind in ("log", "monitor") for v in vals):
            raise NoMerge()
        return POISON
    if all(isinstance(v, Enum) for v in vals):
        if not all(v.ty == v0.ty for v in vals):
            return POISON
        alts = []
        for c, v in cvs:
            for c2, vn, f in v.alts:
                alts.append((T.band(c, c2), vn, f))
        # group by variant
        groups = {}
        order = []
        for c, vn, f in alts:
            if vn not in groups:
                groups[vn] = []
                order.append(vn)
            groups[vn].append((c, f))
        out = []
        for vn in order:
            g = groups[vn]
            cond = T.bor(*[c for c, f in g])
            n = len(g[0][1])
            fields = [merge_values([(c, f[i]) for c, f in g]) for i in range(n)]
            out.append((cond, vn, fields))
        if len(out) == 1:
            out = [(True, out[0][1], out[0][2])]
        return Enum(v0.ty, out)
    return POISON


def _same(a, b):
    if a is b:
        return True
    if T.is_t(a) or T.is_t(b):
        return False
    if isinstance(a, float) and isinstance(b, float):
        return a == b or (a != a and b != b)
    if type(a) != type(b):
        return False
    try:
        return a == b
    except Exception:
        return False


class NoMerge(Exception):
    pass


def merge_states(states, ex, at_return=False):
    """Merge states that are at the same control point.  States whose *concrete control data*
    (integers, iterator positions, references) differ are kept apart: returns a list."""
    if at_return:
        for s in states:
            top = s.frames[-1]
            if "promoted[" in top.fn.name:
                continue
            top.locals = {0: top.locals[0]} if 0 in top.locals else {}
    if len(states) == 1:
        return states
    ex.stats["merges"] += 1
    # group by control point first
    bysig = {}
    for s in states:
        sig = tuple((f.fn.name, f.block, f.idx) for f in s.frames)
        bysig.setdefault(sig, []).append(s)
    out = []
    for sig, g in bysig.items():
        out.extend(_merge_rec(g))
    return out


def _merge_rec(arms):
    """Merge along the fork tree: arms that differ only in their last decision are merged first,
    so that (c, not c) pairs cancel and values become ite(c, v1, v2) nests mirroring the code."""
    if len(arms) == 1:
        return arms
    k = common_prefix([a.pc for a in arms])
    groups = {}
    order = []
    for a in arms:
        key = a.pc[k].id if len(a.pc) > k else None
        if key not in groups:
            groups[key] = []
            order.append(key)
        groups[key].append(a)
    subs = []
    for key in order:
        g = groups[key]
        if key is not None and len(g) > 1 and len(order) > 1:
            subs.extend(_merge_rec(g))
        elif key is not None and len(g) > 1:
            # all share this literal although common_prefix stopped: cannot happen
            subs.extend(g)
        else:
            subs.extend(g)
    out = []
    for s in subs:
        placed = False
        for i, g in enumerate(out):
            try:
                out[i] = merge_two(g, s)
                placed = True
                break
            except NoMerge:
                continue
        if not placed:
            out.append(s)
    return out


def merge_two(a, b):
    k = common_prefix([a.pc, b.pc])
    ca = T.band(*a.pc[k:])
    cb = T.band(*b.pc[k:])
    newframes = []
    for d in range(len(a.frames)):
        fa, fb = a.frames[d], b.frames[d]
        nf = Frame(fa.fn, fa.generics)
        nf.block, nf.idx = fa.block, fa.idx
        if fa.locals is fb.locals:
            nf.locals = fa.locals
        else:
            for l in set(fa.locals) | set(fb.locals):
                if l in fa.locals and l in fb.locals:
                    nf.locals[l] = merge_values([(ca, fa.locals[l]), (cb, fb.locals[l])], strict=True)
                else:
                    nf.locals[l] = POISON
        newframes.append(nf)
    m = State()
    m.frames = newframes
    m.pc = list(a.pc[:k])
    disj = T.bor(ca, cb)
    if disj is not True:
        m.pc.append(disj)
    return m
