"""Parser for rustc's `-Zunpretty=mir` text dump (the subset this crate produces).

Produces, per function: name, argument locals and their types, local types, debug-name map,
and basic blocks of parsed statements / terminators.  Anything the parser does not understand is
kept as ('raw', text) so that the executor can report it as unsupported *if it is reached*.
"""
import re

FN_RE = re.compile(r"^fn (.+?)\((.*)\) -> (.+?) \{$")
CONST_RE = re.compile(r"^(?:const|static) (.+): (.+?) = \{$")
LOCAL_RE = re.compile(r"^\s*let (mut )?_(\d+): (.+);$")
DEBUG_RE = re.compile(r"^\s*debug (\S+) => (.+);$")
BB_RE = re.compile(r"^\s*bb(\d+)( \(cleanup\))?: \{$")


def split_top(s, sep=","):
    """Split on `sep` at nesting depth 0 of () [] {} <> (ignoring '->' and '=>')."""
    out, depth, cur, i = [], 0, [], 0
    instr = False
    while i < len(s):
        c = s[i]
        if instr:
            cur.append(c)
            if c == "\\":
                cur.append(s[i + 1])
                i += 1
            elif c == '"':
                instr = False
        elif c == '"':
            instr = True
            cur.append(c)
        elif c == "'" and i + 2 < len(s) and s[i + 1] != "\\" and s[i + 2] == "'":
            cur.append(s[i:i + 3])
            i += 2
        elif c == "'" and i + 3 < len(s) and s[i + 1] == "\\" and s[i + 3] == "'":
            cur.append(s[i:i + 4])
            i += 3
        elif c in "([{":
            depth += 1
            cur.append(c)
        elif c in ")]}":
            depth -= 1
            cur.append(c)
        elif c == "<":
            depth += 1
            cur.append(c)
        elif c == ">":
            if i > 0 and s[i - 1] in "-=":
                cur.append(c)
            else:
                depth -= 1
                cur.append(c)
        elif c == sep and depth == 0:
            out.append("".join(cur).strip())
            cur = []
        else:
            cur.append(c)
        i += 1
    t = "".join(cur).strip()
    if t:
        out.append(t)
    return out


class Place:
    __slots__ = ("local", "proj")

    def __init__(self, local, proj=()):
        self.local = local
        self.proj = tuple(proj)

    def __repr__(self):
        return "Place(_%d%s)" % (self.local, "".join("/" + str(p) for p in self.proj))


def parse_place(s):
    """Place grammar: _N | (*P) | (P.N: Ty) | (P as Variant) | P[_i] | P[k of n] | *P"""
    s = s.strip()
    m = re.fullmatch(r"_(\d+)", s)
    if m:
        return Place(int(m.group(1)))
    # trailing index  P[_3]
    if s.endswith("]"):
        d = 0
        for i in range(len(s) - 1, -1, -1):
            if s[i] == "]":
                d += 1
            elif s[i] == "[":
                d -= 1
                if d == 0:
                    base = parse_place(s[:i])
                    idx = s[i + 1:-1].strip()
                    mm = re.fullmatch(r"_(\d+)", idx)
                    if mm:
                        return Place(base.local, base.proj + (("index_local", int(mm.group(1))),))
                    mm = re.fullmatch(r"(\d+) of (\d+)", idx)
                    if mm:
                        return Place(base.local, base.proj + (("index", int(mm.group(1))),))
                    raise ValueError("index form " + s)
    if s.startswith("(") and s.endswith(")"):
        inner = s[1:-1]
        if inner.startswith("*"):
            p = parse_place(inner[1:])
            return Place(p.local, p.proj + ("deref",))
        # (P as Variant)
        m = re.fullmatch(r"(.+) as (\w+)", inner)
        if m and _balanced(m.group(1)):
            p = parse_place(m.group(1))
            return Place(p.local, p.proj + (("downcast", m.group(2)),))
        # (P.N: Ty)  -- find the '.N:' at depth 0 scanning from the left after a balanced P
        d = 0
        for i, c in enumerate(inner):
            if c in "([":
                d += 1
            elif c in ")]":
                d -= 1
            elif c == "." and d == 0:
                m = re.match(r"\.(\d+): (.*)$", inner[i:], re.S)
                if m:
                    p = parse_place(inner[:i])
                    if int(m.group(1)) == 0 and re.match(r"(nalgebra::)?(base::)?Matrix<f64, (nalgebra::)?U2, (nalgebra::)?U1", m.group(2)):
                        # Point::coords: the executor stores a point as its two coordinates
                        return Place(p.local, p.proj + (("field", "coords"),))
                    return Place(p.local, p.proj + (("field", int(m.group(1))),))
        raise ValueError("place form " + s)
    if s.startswith("*"):
        p = parse_place(s[1:])
        return Place(p.local, p.proj + ("deref",))
    raise ValueError("place form " + s)


def _balanced(s):
    d = 0
    for c in s:
        if c in "([":
            d += 1
        elif c in ")]":
            d -= 1
            if d < 0:
                return False
    return d == 0


FLOAT_CONST = re.compile(r"^(-?[\d.]+(?:[eE][-+]?\d+)?|-?inf|NaN)_?f(64|32)$")
INT_CONST = re.compile(r"^(-?\d+)_(usize|isize|u8|u16|u32|u64|u128|i8|i16|i32|i64|i128)$")


def parse_operand(s):
    """-> ('copy'|'move', Place) | ('const', kind, value)"""
    s = s.strip()
    if s.startswith("copy "):
        return ("copy", parse_place(s[5:]))
    if s.startswith("move "):
        return ("move", parse_place(s[5:]))
    if s.startswith("const "):
        return parse_const(s[6:].strip())
    # bare function item used as a value (e.g. `site::OccupiedSite::positions`)
    if re.match(r"^[\w<]", s) and "::" in s and not s.startswith("_"):
        return ("const", "named", s)
    raise ValueError("operand " + s)


def parse_const(c):
    m = FLOAT_CONST.match(c)
    if m:
        t = m.group(1)
        if t == "NaN":
            return ("const", "f64", float("nan"))
        return ("const", "f64", float(t))
    m = INT_CONST.match(c)
    if m:
        return ("const", m.group(2), int(m.group(1)))
    if c == "true":
        return ("const", "bool", True)
    if c == "false":
        return ("const", "bool", False)
    if c == "()":
        return ("const", "unit", ())
    m = re.fullmatch(r"'(.*)'", c)
    if m:
        ch = m.group(1)
        if ch.startswith("\\"):
            ch = {"\\n": "\n", "\\t": "\t", "\\'": "'", "\\\\": "\\"}.get(ch, ch)
        return ("const", "char", ord(ch) if len(ch) == 1 else ch)
    m = re.fullmatch(r'"(.*)"', c, re.S)
    if m:
        return ("const", "str", m.group(1))
    # named constants and function items
    return ("const", "named", c)


BINOPS = {"Add", "Sub", "Mul", "Div", "Rem", "Lt", "Le", "Gt", "Ge", "Eq", "Ne", "BitAnd", "BitOr",
          "BitXor", "Shl", "Shr", "AddWithOverflow", "SubWithOverflow", "MulWithOverflow", "Offset",
          "AddUnchecked", "SubUnchecked", "MulUnchecked", "Cmp"}
UNOPS = {"Neg", "Not", "PtrMetadata"}


def parse_rvalue(s):
    s = s.strip()
    m = re.match(r"^(\w+)\((.*)\)$", s, re.S)
    if m and m.group(1) in BINOPS:
        a = split_top(m.group(2))
        return ("binop", m.group(1), parse_operand(a[0]), parse_operand(a[1]))
    if m and m.group(1) in UNOPS:
        return ("unop", m.group(1), parse_operand(m.group(2)))
    if m and m.group(1) == "discriminant":
        return ("discriminant", parse_place(m.group(2)))
    if m and m.group(1) == "Len":
        return ("len", parse_place(m.group(2)))
    if s.startswith("&mut "):
        return ("ref", "mut", parse_place(s[5:]))
    if s.startswith("&raw const "):
        return ("ref", "raw", parse_place(s[11:]))
    if s.startswith("&raw mut "):
        return ("ref", "rawmut", parse_place(s[9:]))
    if s.startswith("&"):
        return ("ref", "shared", parse_place(s[1:]))
    if s.startswith("no_retag "):
        return parse_rvalue(s[9:])
    # casts:  copy _x as f64 (IntToFloat)
    m = re.match(r"^(.*) as (.+?) \((\w+(?:\(.*\))?)\)$", s, re.S)
    if m and (m.group(1).startswith(("copy ", "move ", "const "))):
        return ("cast", m.group(3), parse_operand(m.group(1)), m.group(2))
    if s.startswith(("copy ", "move ", "const ")):
        return ("use", parse_operand(s))
    # tuple aggregate
    if s.startswith("(") and s.endswith(")"):
        inner = s[1:-1].strip()
        if inner == "":
            return ("aggregate", "tuple", None, [])
        parts = split_top(inner)
        try:
            return ("aggregate", "tuple", None, [parse_operand(p) for p in parts])
        except ValueError:
            pass
    # array aggregate
    if s.startswith("[") and s.endswith("]"):
        inner = s[1:-1].strip()
        m2 = re.match(r"^(.*); (\d+)$", inner)
        if m2:
            return ("repeat", parse_operand(m2.group(1)), int(m2.group(2)))
        parts = split_top(inner) if inner else []
        return ("aggregate", "array", None, [parse_operand(p) for p in parts])
    # struct / closure aggregate:  Name { f: op, ... }   or  {closure@...} { f: op }
    m = re.match(r"^(.*?) \{ (.*) \}$", s, re.S)
    if m:
        name = m.group(1).strip()
        fields = []
        for part in split_top(m.group(2)):
            k, v = part.split(": ", 1)
            fields.append((k.strip(), parse_operand(v)))
        return ("aggregate", "struct", name, fields)
    m = re.match(r"^(.*?) \{\s*\}$", s, re.S)
    if m:
        return ("aggregate", "struct", m.group(1).strip(), [])
    # enum variant / tuple-struct constructor:  Option::<f64>::Some(move _3)
    m = re.match(r"^([\w:<>, &'\[\]();{}@./\-]+?)\((.*)\)$", s, re.S)
    if m and "::" in m.group(1) or (m and re.match(r"^[A-Z]\w*$", m.group(1))):
        parts = split_top(m.group(2)) if m.group(2).strip() else []
        try:
            return ("aggregate", "ctor", m.group(1), [parse_operand(p) for p in parts])
        except ValueError:
            pass
    # unit-like variant: Option::<f64>::None
    if re.match(r"^[\w:<>, &'\[\]();]+$", s) and "::" in s:
        return ("aggregate", "ctor", s, [])
    return ("raw", s)


def parse_targets(t):
    """'[return: bb1, unwind continue]' -> dict"""
    out = {}
    for part in split_top(t.strip()[1:-1]):
        if ": " in part:
            k, v = part.split(": ", 1)
            out[k.strip()] = v.strip()
        else:
            out[part.split()[0]] = part
    return out


def bbnum(s):
    m = re.match(r"bb(\d+)", s.strip())
    return int(m.group(1)) if m else None


def parse_statement(line):
    line = line.strip()
    if line.endswith(";"):
        body = line[:-1]
    else:
        body = line
    # terminators
    if body == "return":
        return ("return",)
    if body == "unreachable":
        return ("unreachable",)
    if body == "resume" or body.startswith("resume"):
        return ("resume",)
    if body.startswith("goto -> "):
        return ("goto", bbnum(body[8:]))
    m = re.match(r"^switchInt\((.*)\) -> \[(.*)\]$", body, re.S)
    if m:
        tg = []
        for part in split_top(m.group(2)):
            k, v = part.split(": ")
            tg.append((k.strip(), bbnum(v)))
        return ("switch", parse_operand(m.group(1)), tg)
    m = re.match(r"^drop\((.*)\) -> (\[.*\])$", body, re.S)
    if m:
        t = parse_targets(m.group(2))
        return ("drop", parse_place(m.group(1)), bbnum(t["return"]))
    m = re.match(r"^assert\((.*)\) -> (\[.*\])$", body, re.S)
    if m:
        args = split_top(m.group(1))
        cond = args[0]
        expected = True
        if cond.startswith("!"):
            expected = False
            cond = cond[1:]
        t = parse_targets(m.group(2))
        return ("assert", parse_operand(cond), expected, args[1] if len(args) > 1 else "", bbnum(t["success"]))
    # call:  _5 = callee(args) -> [return: bb1, unwind ...]
    m = re.match(r"^(.+?) = (.+)\((.*)\) -> (\[.*\])$", body, re.S)
    if m and not m.group(2).strip().startswith(("copy ", "move ", "const ", "&")) and _balanced(m.group(1)):
        dest, callee, args, targets = m.groups()
        # callee may itself contain parentheses (closures, fn types); re-split robustly:
        full = body[len(dest) + 3:]
        k = full.rfind(" -> [")
        callpart = full[:k]
        # arguments = last balanced (...) group
        d = 0
        for i in range(len(callpart) - 1, -1, -1):
            if callpart[i] == ")":
                d += 1
            elif callpart[i] == "(":
                d -= 1
                if d == 0:
                    callee = callpart[:i].strip()
                    args = callpart[i + 1:-1]
                    break
        t = parse_targets(full[k + 4:])
        try:
            ops = [parse_operand(a) for a in split_top(args)] if args.strip() else []
            return ("call", parse_place(dest), callee, ops, bbnum(t.get("return", "")) if "return" in t else None)
        except ValueError:
            return ("rawterm", body)
    # diverging call whose only target is a cleanup block: `_8 = begin_panic(..) -> bb72`
    m = re.match(r"^(.+?) = (.*(?:begin_panic|panic_fmt|panic\b|unwrap_failed|expect_failed).*)\((.*)\) -> bb\d+$", body, re.S)
    if m and _balanced(m.group(1)):
        return ("diverge", m.group(2).strip() + "(" + m.group(3)[:80] + ")")
    # diverging call without destination target, e.g. `_x = panic(...) -> unwind continue`
    m = re.match(r"^(.+?) = (.+)\((.*)\) -> unwind .*$", body, re.S)
    if m:
        return ("diverge", m.group(2).strip())
    # plain statements
    if body.startswith(("StorageLive", "StorageDead", "nop", "FakeRead", "PlaceMention", "Retag",
                        "AscribeUserType", "Coverage", "ConstEvalCounter", "BackwardIncompatibleDropHint")):
        return ("nop",)
    m = re.match(r"^(.+?) = (.*)$", body, re.S)
    if m and _balanced(m.group(1)):
        try:
            return ("assign", parse_place(m.group(1)), parse_rvalue(m.group(2)))
        except ValueError:
            return ("rawstmt", body)
    m = re.match(r"^discriminant\((.*)\) = (\d+)$", body)
    if m:
        return ("set_discriminant", parse_place(m.group(1)), int(m.group(2)))
    return ("rawstmt", body)


class Fn:
    def __init__(self, name, args, ret):
        self.name = name
        self.args = args  # list of (local, type)
        self.ret = ret
        self.locals = {}
        self.debug = {}
        self.blocks = {}
        self.cleanup = set()
        self.line = 0
        self.end_line = 0
        self.span = None

    def __repr__(self):
        return "Fn(%s)" % self.name


def parse_mir(text):
    fns = []
    lines = text.split("\n")
    i = 0
    n = len(lines)
    while i < n:
        line = lines[i]
        m = FN_RE.match(line)
        if not m:
            mc = CONST_RE.match(line)
            if not mc:
                i += 1
                continue
            name, argstr, ret = mc.group(1), "", mc.group(2)
        else:
            name, argstr, ret = m.groups()
        args = []
        for a in split_top(argstr):
            mm = re.match(r"_(\d+): (.+)$", a)
            if mm:
                args.append((int(mm.group(1)), mm.group(2)))
        fn = Fn(name, args, ret)
        fn.line = i + 1
        for l, t in args:
            fn.locals[l] = t
        i += 1
        cur = None
        while i < n and lines[i] != "}":
            l = lines[i]
            mb = BB_RE.match(l)
            if mb:
                cur = int(mb.group(1))
                fn.blocks[cur] = []
                if mb.group(2):
                    fn.cleanup.add(cur)
                i += 1
                # statements may span several lines (long call types); join until ';' or terminator
                buf = ""
                while i < n and lines[i].strip() != "}":
                    buf += (" " if buf else "") + lines[i].strip()
                    if buf.endswith(";") or buf.endswith("]") or buf in ("return", "unreachable", "resume"):
                        fn.blocks[cur].append(parse_statement(buf))
                        buf = ""
                    i += 1
                if buf:
                    fn.blocks[cur].append(parse_statement(buf))
                i += 1
                continue
            ml = LOCAL_RE.match(l)
            if ml:
                fn.locals[int(ml.group(2))] = ml.group(3)
            md = DEBUG_RE.match(l)
            if md:
                fn.debug.setdefault(md.group(1), []).append(md.group(2))
            i += 1
        fn.end_line = i + 1
        ms = re.search(r"<impl at (src/[^:]+):(\d+):\d+: (\d+):\d+>", name)
        if ms:
            fn.span = (ms.group(1), int(ms.group(2)), int(ms.group(3)))
        fns.append(fn)
        i += 1
    return fns


if __name__ == "__main__":
    import sys, collections
    fns = parse_mir(open(sys.argv[1]).read())
    print(len(fns), "functions")
    raw = collections.Counter()
    for f in fns:
        for b, sts in f.blocks.items():
            for st in sts:
                if st[0] in ("rawstmt", "rawterm"):
                    raw[(f.name[:60], st[1][:100])] += 1
                if st[0] == "assign" and st[2][0] == "raw":
                    raw[(f.name[:60], "RV " + st[2][1][:100])] += 1
    want = sys.argv[2:] or [""]
    for (fn, s), c in raw.items():
        if any(w in fn for w in want):
            print(fn, "|", s)
    print(len(raw), "raw forms")
