"""Build MIR-level values of the crate's types (field order = declaration order, checked
against the MIR's own local type strings where possible)."""
import json, subprocess, os
import terms as T
from mirexec import Agg, Enum, mk_enum
from engine import shared, fvar, TARGET

REPLAY = os.path.join(TARGET, "replay", "debug", "pv_replay")
_data = None


def real_data(extra_trimers=()):
    """group tables (through the real parser) and shapes (through the real constructors)"""
    global _data
    key = tuple(extra_trimers)
    if _data is None or _data[0] != key:
        out = subprocess.run([REPLAY, "data"] + ["%s,%s,%s" % t for t in extra_trimers], stdout=subprocess.PIPE, text=True, check=True).stdout
        _data = (key, json.loads(out))
    return _data[1]


def fl(x):
    if isinstance(x, str):
        return float(x)
    return float(x)


def mat3(vals):
    return Agg("struct:Mat3", [fl(v) if not T.is_t(v) else v for v in vals])


def transform2(vals):
    return Agg("struct:Transform2", [mat3(vals)])


def point(x, y):
    return Agg("struct:Point", [x, y])


def clean(x, eps=1e-15):
    x = fl(x)
    return 0.0 if abs(x) < eps else x


def line_shape(items, cleaned=True):
    c = (lambda v: clean(v)) if cleaned else fl
    return Agg("struct:LineShape", [Agg("str", ["Polygon"]),
                                    Agg("vec", [Agg("struct:Line2", [point(c(a), c(b)), point(c(x), c(y))]) for a, b, x, y in items])])


def mol_shape(items):
    return Agg("struct:MolecularShape2", [Agg("str", ["mol"]),
                                          Agg("vec", [Agg("struct:Atom2", [point(fl(x), fl(y)), fl(r)]) for x, y, r in items])])


def lj_shape(items):
    out = []
    for x, y, s, e, c in items:
        cut = mk_enum("Option", "None", []) if c is None else mk_enum("Option", "Some", [fl(c)])
        out.append(Agg("struct:LJ2", [point(fl(x), fl(y)), fl(s), fl(e), cut]))
    return Agg("struct:LJShape2", [Agg("str", ["lj"]), Agg("vec", out)])


def shape_value(sh):
    if sh["kind"] == "line":
        return line_shape(sh["items"])
    if sh["kind"] == "mol":
        return mol_shape(sh["items"])
    return lj_shape(sh["items"])


def wyckoff(ops):
    return Agg("struct:WyckoffSite", [ord("a"), Agg("vec", [transform2(o) for o in ops]), 1, False, False])


def occupied_site(ops, x, y, angle):
    return Agg("struct:OccupiedSite", [wyckoff(ops), shared(x), shared(y), shared(angle)])


def cell(length, ratio, angle, family):
    return Agg("struct:Cell2", [shared(length), shared(ratio), shared(angle), mk_enum("CrystalFamily", family, [])])


def state(kind, group, shape, length, ratio, angle, x, y, theta, family=None):
    g = real_data()["groups"][group]
    fam = family or g["family"]
    name = "PackedState" if kind == "packed" else "PotentialState"
    wall = Agg("struct:Wallpaper", [Agg("str", [g["name"]]), mk_enum("CrystalFamily", fam, [])])
    return Agg("struct:" + name, [wall, shape, cell(length, ratio, angle, fam), Agg("vec", [occupied_site(g["ops"], x, y, theta)])])
