"""Summaries ("builtins") for functions outside the crate: f64 methods, nalgebra geometry,
std/itertools iterator adaptors, Vec/Option helpers, rand.  This list is the trusted base of the
MIR engine and is printed in every evidence file.  Each summary is validated against the real
functions through the replay binary (encoder validation).
"""
import re, copy
import terms as T
from mirexec import Agg, Enum, Ref, FnItem, Unsupported, mk_enum, POISON, closure_id, AllPathsDiverge

B = []          # (compiled regex, handler)
NAMES = []      # human-readable list for the evidence


def builtin(rx, doc=None):
    def deco(f):
        B.append((re.compile(rx), f))
        NAMES.append((rx, doc or f.__doc__ or f.__name__))
        return f
    return deco


def deref_arg(ex, st, v):
    while isinstance(v, Ref):
        v = ex.load(st, v)
    return v


# ------------------------------------------------------------------------------- floats

def powi(x, n):
    """compiler-rt __powidf2: square-and-multiply"""
    recip = n < 0
    b = abs(n)
    r = 1.0
    a = x
    while True:
        if b & 1:
            r = T.fbin("fmul", r, a)
        b //= 2
        if b == 0:
            break
        a = T.fbin("fmul", a, a)
    return T.fbin("fdiv", 1.0, r) if recip else r


@builtin(r"f64::<impl f64>::powi$", "f64::powi(x, const n) = square-and-multiply product")
def b_powi(ex, st, a, m, c):
    if T.is_t(a[1]):
        raise Unsupported("powi with symbolic exponent")
    return powi(a[0], a[1])


@builtin(r"f64::<impl f64>::abs$", "f64::abs")
def b_abs(ex, st, a, m, c):
    return T.fun("fabs", a[0])


@builtin(r"f64::<impl f64>::sqrt$", "f64::sqrt (R-mode: s>=0, s*s=x)")
def b_sqrt(ex, st, a, m, c):
    return T.fun("fsqrt", a[0])


@builtin(r"f64::<impl f64>::(min|max)$", "f64::min/max (NaN-ignoring)")
def b_minmax(ex, st, a, m, c):
    return T.fbin("f" + m.group(1), a[0], a[1])


@builtin(r"f64::<impl f64>::(round|floor|ceil|trunc)$", "f64::round (half away from zero) / floor / ceil / trunc")
def b_round(ex, st, a, m, c):
    return T.fun("f" + m.group(1), a[0])


@builtin(r"f64::<impl f64>::sin_cos$", "f64::sin_cos = (sin, cos) uninterpreted")
def b_sincos(ex, st, a, m, c):
    if not T.is_t(a[0]):
        import math
        return Agg("tuple", [math.sin(a[0]), math.cos(a[0])])
    return Agg("tuple", [T.uf("sin", [a[0]]), T.uf("cos", [a[0]])])


@builtin(r"f64::<impl f64>::clamp$", "f64::clamp(x, lo, hi) (NaN stays NaN)")
def b_clamp(ex, st, a, m, c):
    x, lo, hi = a
    return T.ite(T.fcmp("flt", x, lo), lo, T.ite(T.fcmp("fgt", x, hi), hi, x))


@builtin(r"f64::<impl f64>::rem_euclid$", "f64::rem_euclid")
def b_remeuclid(ex, st, a, m, c):
    r = T.fbin("frem", a[0], a[1])
    return T.ite(T.fcmp("flt", r, 0.0), T.fbin("fadd", r, T.fun("fabs", a[1])), r)


@builtin(r"f64::<impl f64>::mul_add$", "f64::mul_add = x*y+z (single rounding ignored)")
def b_muladd(ex, st, a, m, c):
    return T.fbin("fadd", T.fbin("fmul", a[0], a[1]), a[2])


@builtin(r"f64::<impl f64>::hypot$", "f64::hypot = sqrt(x^2+y^2)")
def b_hypot(ex, st, a, m, c):
    return T.fun("fsqrt", T.fbin("fadd", T.fbin("fmul", a[0], a[0]), T.fbin("fmul", a[1], a[1])))


@builtin(r"f64::<impl f64>::recip$", "f64::recip")
def b_recip(ex, st, a, m, c):
    return T.fbin("fdiv", 1.0, a[0])


@builtin(r"f64::<impl f64>::signum$", "f64::signum (NaN outside)")
def b_signum(ex, st, a, m, c):
    return T.ite(T.fcmp("flt", a[0], 0.0), -1.0, 1.0)


@builtin(r"f64::<impl f64>::(is_nan|is_infinite|is_finite|is_normal|is_sign_negative|is_sign_positive)$", "f64 classification (a symbolic value is a finite real; IEEE special values are propagated concretely)")
def b_isnan(ex, st, a, m, c):
    x = a[0]
    if T.is_t(x) and x.op == "ite" and T._has_nf_leaf(x):
        return T._lift1(lambda v: b_isnan(ex, st, [v], m, c), x)
    k = m.group(1)
    if not T.is_t(x):
        import math
        x = float(x)
        return {"is_nan": x != x, "is_infinite": math.isinf(x), "is_finite": not (math.isinf(x) or x != x), "is_normal": not (math.isinf(x) or x != x or x == 0),
                "is_sign_negative": math.copysign(1.0, x) < 0, "is_sign_positive": math.copysign(1.0, x) > 0}[k]
    if k in ("is_nan", "is_infinite"):
        return False
    if k == "is_finite":
        return True
    if k == "is_sign_negative":
        return T.fcmp("flt", x, 0.0)
    if k == "is_sign_positive":
        return T.fcmp("fle", 0.0, x)
    return T.bnot(T.fcmp("feq", x, 0.0))


@builtin(r"f64::<impl f64>::(tan|atan|asin|sinh|cosh|tanh|ln|log10|log2|exp2|cbrt)$", "uninterpreted transcendental")
def b_trans2(ex, st, a, m, c):
    return T.uf(m.group(1), [a[0]])


@builtin(r"f64::<impl f64>::atan2$", "uninterpreted atan2")
def b_atan2(ex, st, a, m, c):
    return T.uf("atan2", [a[0], a[1]])


@builtin(r"f64::<impl f64>::to_radians$", "f64::to_radians = x * (PI/180)")
def b_torad(ex, st, a, m, c):
    return T.fbin("fmul", a[0], 3.141592653589793 / 180.0)


@builtin(r"f64::<impl f64>::(sin|cos|acos|exp|ln)$", "uninterpreted transcendental (axioms per obligation)")
def b_trans(ex, st, a, m, c):
    if T.is_t(a[0]) and a[0].op == "ite" and T._has_nf_leaf(a[0]):
        return T._lift1(lambda x: b_trans(ex, st, [x], m, c), a[0])
    if not T.is_t(a[0]):
        import math
        try:
            return getattr(math, {"ln": "log"}.get(m.group(1), m.group(1)))(a[0])
        except (ValueError, OverflowError):
            return float("nan")
    return T.uf(m.group(1), [a[0]])


@builtin(r"f64::<impl f64>::powf$", "uninterpreted powf (concrete arguments are evaluated, IEEE special cases included)")
def b_powf(ex, st, a, m, c):
    for k in (0, 1):
        if T.is_t(a[k]) and a[k].op == "ite" and T._has_nf_leaf(a[k]):
            other = a[1 - k]
            return T._lift1(lambda x: b_powf(ex, st, [x, other] if k == 0 else [other, x], m, c), a[k])
    if not T.is_t(a[0]) and not T.is_t(a[1]):
        import math
        x, y = float(a[0]), float(a[1])
        try:
            return math.pow(x, y)
        except OverflowError:
            return float("inf")
        except ValueError:
            return float("nan")
    return T.uf("powf", [a[0], a[1]])


@builtin(r"^<&?f64 as (Mul|Add|Sub|Div)(<&?f64>)?>::(mul|add|sub|div)$", "f64 operator traits")
def b_fop(ex, st, a, m, c):
    x, y = deref_arg(ex, st, a[0]), deref_arg(ex, st, a[1])
    return T.fbin("f" + m.group(3), x, y)


@builtin(r"^<f64 as PartialOrd>::partial_cmp$", "f64::partial_cmp -> Option<Ordering>")
def b_pcmp(ex, st, a, m, c):
    x, y = deref_arg(ex, st, a[0]), deref_arg(ex, st, a[1])
    lt, eq, gt = T.fcmp("flt", x, y), T.fcmp("feq", x, y), T.fcmp("fgt", x, y)
    some = T.bor(lt, eq, gt)
    order = Enum("Ordering", [(lt, "Less", []), (eq, "Equal", []), (T.band(T.bnot(lt), T.bnot(eq)), "Greater", [])])
    alts = [(some, "Some", [order]), (T.bnot(some), "None", [])]
    alts = [x for x in alts if x[0] is not False]
    if len(alts) == 1:
        alts = [(True, alts[0][1], alts[0][2])]
    return Enum("Option", alts)


@builtin(r"^<(u64|usize|i64|i32|u32) as Ord>::(min|max)$", "integer min/max")
def b_umin(ex, st, a, m, c):
    ismin = m.group(2) == "min"
    if T.is_t(a[0]) or T.is_t(a[1]):
        le = T.icmp("ile", a[0], a[1])
        return T.ite(le, a[0], a[1]) if ismin else T.ite(le, a[1], a[0])
    return min(a[0], a[1]) if ismin else max(a[0], a[1])


# ------------------------------------------------------------------------------- Option

@builtin(r"Option::<.*>::(unwrap|expect)$", "Option::unwrap/expect (None => panic recorded)")
def b_unwrap(ex, st, a, m, c):
    v = a[0]
    if not isinstance(v, Enum):
        raise Unsupported("unwrap of %r" % (v,))
    some = [(cnd, f) for cnd, vn, f in v.alts if vn == "Some"]
    none = [cnd for cnd, vn, f in v.alts if vn == "None"]
    for cnd in none:
        if cnd is True:
            ex.panics.append((list(st.pc), "unwrap on None", c, -1))
            raise AllPathsDiverge("unwrap None")
        ex.panics.append((list(st.pc) + [cnd], "unwrap on None", c, -1))
        st.pc.append(T.bnot(cnd))
    if len(some) == 1:
        return some[0][1][0]
    from mirexec import merge_values
    return merge_values([(cnd, f[0]) for cnd, f in some])


@builtin(r"Option::<.*>::is_some$", "Option::is_some")
def b_is_some(ex, st, a, m, c):
    v = deref_arg(ex, st, a[0])
    return T.bor(*[cnd for cnd, vn, f in v.alts if vn == "Some"])


# ------------------------------------------------------------------------------- nalgebra

def point(x, y):
    return Agg("struct:Point", [x, y])


@builtin(r"point_construction::<impl Point<f64, U2>>::new$", "Point2::new")
def b_pnew(ex, st, a, m, c):
    return point(a[0], a[1])


@builtin(r"point_construction::<impl Point<f64, U2>>::origin$", "Point2::origin")
def b_porigin(ex, st, a, m, c):
    return point(0.0, 0.0)


@builtin(r"^<Point<f64, U2> as Deref(Mut)?>::deref(_mut)?$", "Point deref to XY coordinates (same storage)")
def b_pderef(ex, st, a, m, c):
    return a[0]


@builtin(r"^<Matrix<f64, U2, U1, ArrayStorage<f64, U2, U1>> as Deref(Mut)?>::deref(_mut)?$", "Vector2 deref to XY coordinates (same storage)")
def b_vderef(ex, st, a, m, c):
    return a[0]


@builtin(r"^<Matrix<f64, U2, U1, ArrayStorage<f64, U2, U1>> as (Div|Mul)<f64>>::(div|mul)$", "Vector2 / scalar, Vector2 * scalar")
def b_vscale(ex, st, a, m, c):
    v = deref_arg(ex, st, a[0])
    op = "fdiv" if "div" in c.rsplit("::", 1)[-1] else "fmul"
    return Agg("struct:Vec2", [T.fbin(op, v.fields[0], a[1]), T.fbin(op, v.fields[1], a[1])])


@builtin(r"^<&?Point<f64, U2> as (Add|Sub)<&?Matrix<f64, U2, U1, ArrayStorage<f64, U2, U1>>>>::(add|sub)$", "Point +- Vector2")
def b_paddv(ex, st, a, m, c):
    p, v = deref_arg(ex, st, a[0]), deref_arg(ex, st, a[1])
    op = "fadd" if c.rsplit("::", 1)[-1] == "add" else "fsub"
    return point(T.fbin(op, p.fields[0], v.fields[0]), T.fbin(op, p.fields[1], v.fields[1]))


@builtin(r"^(nalgebra::)?center::<f64, U2>$", "nalgebra::center = midpoint of two points")
def b_center(ex, st, a, m, c):
    p, q = deref_arg(ex, st, a[0]), deref_arg(ex, st, a[1])
    return point(T.fbin("fmul", 0.5, T.fbin("fadd", p.fields[0], q.fields[0])), T.fbin("fmul", 0.5, T.fbin("fadd", p.fields[1], q.fields[1])))


@builtin(r"^<&?Point<f64, U2> as Sub(<&?Point<f64, U2>>)?>::sub$", "Point - Point = vector")
def b_psub(ex, st, a, m, c):
    p, q = deref_arg(ex, st, a[0]), deref_arg(ex, st, a[1])
    return Agg("struct:Vec2", [T.fbin("fsub", p.fields[0], q.fields[0]), T.fbin("fsub", p.fields[1], q.fields[1])])


def norm_sq(v):
    return T.fbin("fadd", T.fbin("fmul", v.fields[0], v.fields[0]), T.fbin("fmul", v.fields[1], v.fields[1]))


@builtin(r"norm::<impl Matrix<f64, U2, U1,.*>::norm_squared$", "Vector2::norm_squared = x*x + y*y")
def b_normsq(ex, st, a, m, c):
    return norm_sq(deref_arg(ex, st, a[0]))


@builtin(r"^(nalgebra::)?distance::<f64, U2>$", "nalgebra::distance = sqrt(norm_squared(p-q))")
def b_distance(ex, st, a, m, c):
    p, q = deref_arg(ex, st, a[0]), deref_arg(ex, st, a[1])
    d = Agg("struct:Vec2", [T.fbin("fsub", p.fields[0], q.fields[0]), T.fbin("fsub", p.fields[1], q.fields[1])])
    return T.fun("fsqrt", norm_sq(d))


def mat3(vals):
    return Agg("struct:Mat3", list(vals))


@builtin(r"Transform::<f64, U2, TGeneral>::from_matrix_unchecked$", "Transform::from_matrix_unchecked (identity on the matrix)")
def b_fromm(ex, st, a, m, c):
    return a[0]


@builtin(r"Transform::<f64, U2, TGeneral>::matrix$", "Transform::matrix (same storage)")
def b_matrix(ex, st, a, m, c):
    return a[0]


@builtin(r"as Index(Mut)?<\(usize, usize\)>>::index(_mut)?$", "Matrix3 / Transform index (r,c)")
def b_index(ex, st, a, m, c):
    rc = a[1]
    r, cc = rc.fields
    if T.is_t(r) or T.is_t(cc):
        raise Unsupported("symbolic matrix index")
    if not (0 <= r < 3 and 0 <= cc < 3):
        ex.panics.append((list(st.pc), "matrix index out of bounds", c, -1))
        raise AllPathsDiverge("index")
    ref = a[0]
    return Ref(ref.depth, ref.local, ref.path + (r * 3 + cc,))


@builtin(r"Matrix<f64, U3, U3,.*>>::zeros$", "Matrix3::zeros")
def b_zeros(ex, st, a, m, c):
    return mat3([0.0] * 9)


@builtin(r"impl Transform<f64, U2, TGeneral>>::identity$", "Transform2::identity")
def b_ident(ex, st, a, m, c):
    return mat3([1.0, 0.0, 0.0, 0.0, 1.0, 0.0, 0.0, 0.0, 1.0])


@builtin(r"impl Translation<f64, U2>>::new$", "Translation2::new")
def b_tnew(ex, st, a, m, c):
    return Agg("struct:Translation", [a[0], a[1]])


@builtin(r"impl Rotation<f64, U2>>::new$", "Rotation2::new(angle) = [[cos,-sin],[sin,cos]] with uninterpreted sin/cos")
def b_rnew(ex, st, a, m, c):
    ang = a[0]
    if T.is_t(ang):
        return Agg("struct:Rotation", [T.uf("cos", [ang]), T.uf("sin", [ang])])
    import math
    # nalgebra: sin_cos of the angle
    return Agg("struct:Rotation", [math.cos(ang), math.sin(ang)])


@builtin(r"Isometry::<f64, U2, Rotation<f64, U2>>::from_parts$", "IsometryMatrix2::from_parts")
def b_isoparts(ex, st, a, m, c):
    return Agg("struct:Isometry", [a[0], a[1]])


@builtin(r"Isometry::<f64, U2, Rotation<f64, U2>>::to_homogeneous$", "IsometryMatrix2::to_homogeneous")
def b_isohom(ex, st, a, m, c):
    iso = deref_arg(ex, st, a[0])
    t, r = iso.fields
    cs, sn = r.fields
    return mat3([cs, T.fun("fneg", sn), t.fields[0], sn, cs, t.fields[1], 0.0, 0.0, 1.0])


@builtin(r"^<&?Translation<f64, U2> as Mul<&?Point<f64, U2>>>::mul$", "Translation * Point = t + p")
def b_tmulp(ex, st, a, m, c):
    t, p = deref_arg(ex, st, a[0]), deref_arg(ex, st, a[1])
    return point(T.fbin("fadd", t.fields[0], p.fields[0]), T.fbin("fadd", t.fields[1], p.fields[1]))


def dot3(a0, b0, a1, b1, a2, b2):
    return T.fbin("fadd", T.fbin("fadd", T.fbin("fmul", a0, b0), T.fbin("fmul", a1, b1)), T.fbin("fmul", a2, b2))


@builtin(r"^<&?Transform<f64, U2, TGeneral> as Mul(<&?Transform<f64, U2, TGeneral>>)?>::mul$", "Transform * Transform = 3x3 matrix product")
def b_mmul(ex, st, a, m, c):
    A, Bm = deref_arg(ex, st, a[0]).fields, deref_arg(ex, st, a[1]).fields
    out = []
    for i in range(3):
        for j in range(3):
            out.append(dot3(A[i * 3], Bm[j], A[i * 3 + 1], Bm[3 + j], A[i * 3 + 2], Bm[6 + j]))
    return mat3(out)


@builtin(r"^<&?Transform<f64, U2, TGeneral> as Mul<&?Point<f64, U2>>>::mul$",
         "Transform * Point with nalgebra's projective normaliser: n = m20*x+m21*y+m22; (M p + t)/n if n != 0")
def b_mmulp(ex, st, a, m, c):
    M, p = deref_arg(ex, st, a[0]).fields, deref_arg(ex, st, a[1])
    x, y = p.fields
    rx = T.fbin("fadd", T.fbin("fadd", T.fbin("fmul", M[0], x), T.fbin("fmul", M[1], y)), M[2])
    ry = T.fbin("fadd", T.fbin("fadd", T.fbin("fmul", M[3], x), T.fbin("fmul", M[4], y)), M[5])
    n = T.fbin("fadd", T.fbin("fadd", T.fbin("fmul", M[6], x), T.fbin("fmul", M[7], y)), M[8])
    nz = T.fcmp("feq", n, 0.0)
    if nz is True:
        return point(rx, ry)
    if nz is False:
        return point(T.fbin("fdiv", rx, n), T.fbin("fdiv", ry, n))
    return point(T.ite(nz, rx, T.fbin("fdiv", rx, n)), T.ite(nz, ry, T.fbin("fdiv", ry, n)))


# ------------------------------------------------------------------------------- cells / Vec

@builtin(r"UnsafeCell::<f64>::get$", "UnsafeCell::get -> pointer to the contents")
def b_ucget(ex, st, a, m, c):
    r = a[0]
    return Ref(r.depth, r.local, r.path + (0,))


@builtin(r"UnsafeCell::<f64>::new$", "UnsafeCell::new")
def b_ucnew(ex, st, a, m, c):
    return Agg("struct:UnsafeCell", [a[0]])


@builtin(r"ptr::mut_ptr::<impl \*mut f64>::write$", "ptr::write")
def b_ptrwrite(ex, st, a, m, c):
    ex.store(st, a[0], a[1])
    return Agg("tuple", [])


@builtin(r"^<Vec<.*> as Deref(Mut)?>::deref(_mut)?$", "Vec deref to slice (same storage)")
def b_vderef(ex, st, a, m, c):
    return a[0]


@builtin(r"^<String as Deref>::deref$", "String deref")
def b_sderef(ex, st, a, m, c):
    return a[0]


@builtin(r"^Vec::<.*>::new$", "Vec::new")
def b_vnew(ex, st, a, m, c):
    return Agg("vec", [])


@builtin(r"^Vec::<.*>::len$", "Vec::len")
def b_vlen(ex, st, a, m, c):
    return len(deref_arg(ex, st, a[0]).fields)


@builtin(r"^Vec::<.*>::push$", "Vec::push")
def b_vpush(ex, st, a, m, c):
    v = ex.load(st, a[0])
    ex.store(st, a[0], Agg(v.kind, list(v.fields) + [a[1]]))
    return Agg("tuple", [])


@builtin(r"^Vec::<.*>::append$", "Vec::append")
def b_vappend(ex, st, a, m, c):
    v = ex.load(st, a[0])
    w = ex.load(st, a[1])
    ex.store(st, a[0], Agg(v.kind, list(v.fields) + list(w.fields)))
    ex.store(st, a[1], Agg(w.kind, []))
    return Agg("tuple", [])


@builtin(r"^<Vec<.*> as Clone>::clone$|^<String as Clone>::clone$|^<WyckoffSite as Clone>::clone$", "Clone (deep copy of the value)")
def b_clone(ex, st, a, m, c):
    return deref_arg(ex, st, a[0])


@builtin(r"^<String as From<&str>>::from$", "String::from")
def b_sfrom(ex, st, a, m, c):
    return deref_arg(ex, st, a[0])


@builtin(r"core::slice::<impl \[.*\]>::(get|get_mut)::<usize>$", "slice::get")
def b_sget(ex, st, a, m, c):
    v = ex.load(st, a[0])
    i = a[1]
    if T.is_t(i):
        raise Unsupported("symbolic slice index")
    if 0 <= i < len(v.fields):
        return mk_enum("Option", "Some", [Ref(a[0].depth, a[0].local, a[0].path + (i,))])
    return mk_enum("Option", "None", [])


# ------------------------------------------------------------------------------- Box / vec! macro

@builtin(r"^Box::<\[.*; \d+\]>::new_uninit$", "Box::new_uninit (vec! macro): fresh heap slot in the root frame")
def b_box_uninit(ex, st, a, m, c):
    ex.fresh += 1
    slot = 500000 + ex.fresh
    st.frames[0].locals[slot] = Agg("partial", [])
    # Box { Unique { NonNull(ptr) } }
    return Agg("struct:Box", [Agg("struct:Unique", [Ref(0, slot, ())])])


@builtin(r"box_assume_init_into_vec_unsafe::<", "vec! macro: Box<[T; N]> -> Vec<T>")
def b_box_into_vec(ex, st, a, m, c):
    ref = a[0].fields[0].fields[0]
    v = ex.load(st, ref)
    arr = v.fields[1].fields[0].fields[0]
    return Agg("vec", list(arr.fields))


@builtin(r"^std::vec::from_elem::<", "vec![x; n]")
def b_from_elem(ex, st, a, m, c):
    if T.is_t(a[1]):
        raise Unsupported("vec![x; n] with symbolic n")
    return Agg("vec", [a[0]] * a[1])


# ------------------------------------------------------------------------------- iterators
# An iterator value is Agg("iter:<kind>", state...).  All operations go through references so
# that state survives re-merging.

def it(kind, *fields):
    return Agg("iter:" + kind, list(fields))


@builtin(r"core::slice::<impl \[.*\]>::iter$", "slice::iter")
def b_sliter(ex, st, a, m, c):
    return it("slice", a[0], 0)


@builtin(r"^<(std::slice::Iter|std::iter::|Enumerate|Skip|FlatMap|std::ops::Range|std::vec::IntoIter|itertools::|Chars|Cycle|TupleCombinations|std::iter::Zip).* as IntoIterator>::into_iter$",
         "IntoIterator for iterators = identity")
def b_intoiter_id(ex, st, a, m, c):
    return a[0]


@builtin(r"^<Vec<.*> as IntoIterator>::into_iter$", "Vec::into_iter")
def b_vec_intoiter(ex, st, a, m, c):
    return it("vecinto", a[0], 0)


@builtin(r" as IntoIterator>::into_iter$", "IntoIterator: identity on iterator models, by-value Vec, slice reference; crate impls are executed from their MIR")
def b_intoiter_any(ex, st, a, m, c):
    v = a[0]
    if isinstance(v, Agg) and v.kind.startswith("iter:"):
        return v
    if isinstance(v, Agg) and v.kind == "vec":
        return it("vecinto", v, 0)
    f = ex.find_mir(c, a, st)
    if f is not None:
        return ex.call_fn(st, f, a, st.frames[-1].generics if st.frames else {})
    if isinstance(v, Ref):
        tgt = ex.load(st, v)
        if isinstance(tgt, Agg) and tgt.kind in ("vec", "array"):
            return it("slice", v, 0)
    raise Unsupported("into_iter on %r" % (v,))


@builtin(r" as Iterator>::map::<", "Iterator::map")
def b_map(ex, st, a, m, c):
    return it("map", a[0], a[1])


@builtin(r" as Iterator>::filter::<", "Iterator::filter (predicate must be concrete)")
def b_filter(ex, st, a, m, c):
    return it("filter", a[0], a[1])


@builtin(r" as Iterator>::enumerate$", "Iterator::enumerate")
def b_enum(ex, st, a, m, c):
    return it("enumerate", a[0], 0)


@builtin(r" as Iterator>::skip$", "Iterator::skip (concrete count)")
def b_skip(ex, st, a, m, c):
    if T.is_t(a[1]):
        raise Unsupported("skip with symbolic count")
    return it("skip", a[0], a[1])


@builtin(r" as Iterator>::flat_map::<", "Iterator::flat_map")
def b_flatmap(ex, st, a, m, c):
    return it("flatmap", a[0], a[1], None)


@builtin(r" as Iterator>::zip::<", "Iterator::zip")
def b_zip(ex, st, a, m, c):
    return it("zip", a[0], a[1])


@builtin(r" as Iterator>::cycle$", "Iterator::cycle")
def b_cycle(ex, st, a, m, c):
    return it("cycle", a[0], a[0])


@builtin(r" as Itertools>::cartesian_product::<", "itertools::cartesian_product (a outer, b inner)")
def b_product(ex, st, a, m, c):
    return it("product", a[0], a[1], "unset", a[1])


@builtin(r" as Itertools>::tuple_combinations::<\(&[\w:]+, &[\w:]+\)>$", "itertools::tuple_combinations for pairs")
def b_tuplecomb(ex, st, a, m, c):
    return it("comb2", a[0], None, 0, 0)


@builtin(r"^std::ops::RangeInclusive::<\w+>::new$", "RangeInclusive::new")
def b_rinew(ex, st, a, m, c):
    if T.is_t(a[0]) or T.is_t(a[1]):
        raise Unsupported("range with symbolic bounds")
    return it("rangeincl", a[0], a[1], False)


def call_callable(ex, st, fref_or_val, fval, args):
    """call a closure (by reference to its storage) or a fn item"""
    if isinstance(fval, FnItem):
        res = ex.resolve_callee(st, fval.name, args)
        if res[0] == "mir":
            return ex.call_fn(st, res[1], args, res[2])
        out = res[1](ex, st, args, res[2], res[3])
        if isinstance(out, tuple) and len(out) == 2 and hasattr(out[0], "frames"):
            return out
        return st, out
    if isinstance(fval, Agg) and fval.kind.startswith("closure:"):
        cid = fval.kind[len("closure:"):]
        fn = find_closure(ex, cid)
        # FnOnce closures take self by value, Fn/FnMut by reference
        a0ty = fn.args[0][1]
        if a0ty.startswith("&"):
            if fref_or_val is None:
                raise Unsupported("closure needs storage")
            return ex.call_fn(st, fn, [fref_or_val] + list(args), st.frames[-1].generics if st.frames else {})
        return ex.call_fn(st, fn, [fval] + list(args), st.frames[-1].generics if st.frames else {})
    raise Unsupported("not callable: %r" % (fval,))


_closure_cache = {}


def find_closure(ex, cid):
    key = (id(ex), cid)
    if key in _closure_cache:
        return _closure_cache[key]
    for f in ex.fns:
        if "{closure#" in f.name and f.args and ("{closure@%s}" % cid) in f.args[0][1]:
            _closure_cache[key] = f
            return f
    raise Unsupported("closure body not found: " + cid)


def sub(ref, *p):
    return Ref(ref.depth, ref.local, ref.path + tuple(p))


def iter_next(ex, st, ref):
    """advance the iterator stored at `ref`; -> (state, item | None)"""
    itv = ex.load(st, ref)
    if not (isinstance(itv, Agg) and itv.kind.startswith("iter:")):
        raise Unsupported("next() on %r" % (itv,))
    k = itv.kind[5:]
    f = itv.fields
    if k == "slice":
        tgt, pos = f
        n = len(ex.load(st, tgt).fields)
        if pos < n:
            ex.store(st, sub(ref, 1), pos + 1)
            return st, sub(tgt, pos)
        return st, None
    if k == "vecinto":
        vec, pos = f
        if pos < len(vec.fields):
            ex.store(st, sub(ref, 1), pos + 1)
            return st, vec.fields[pos]
        return st, None
    if k == "rangeincl":
        lo, hi, done = f
        if done or lo > hi:
            return st, None
        if lo == hi:
            ex.store(st, sub(ref, 2), True)
        else:
            ex.store(st, sub(ref, 0), lo + 1)
        return st, lo
    if k == "range":
        lo, hi = f
        if lo < hi:
            ex.store(st, sub(ref, 0), lo + 1)
            return st, lo
        return st, None
    if k == "map":
        st, x = iter_next(ex, st, sub(ref, 0))
        if x is None:
            return st, None
        clo = ex.load(st, sub(ref, 1))
        st, y = call_callable(ex, st, sub(ref, 1), clo, [x])
        return st, y
    if k == "filter":
        while True:
            st, x = iter_next(ex, st, sub(ref, 0))
            if x is None:
                return st, None
            # predicate takes &item: put the item in a scratch slot of the iterator
            ex.store(st, sub(ref, 2), x)
            clo = ex.load(st, sub(ref, 1))
            st, keep = call_callable(ex, st, sub(ref, 1), clo, [sub(ref, 2)])
            if T.is_t(keep):
                raise Unsupported("filter predicate is symbolic")
            if keep:
                return st, x
    if k == "enumerate":
        st, x = iter_next(ex, st, sub(ref, 0))
        if x is None:
            return st, None
        n = ex.load(st, sub(ref, 1))
        ex.store(st, sub(ref, 1), n + 1)
        return st, Agg("tuple", [n, x])
    if k == "skip":
        n = f[1]
        while n > 0:
            st, x = iter_next(ex, st, sub(ref, 0))
            n -= 1
            if x is None:
                ex.store(st, sub(ref, 1), 0)
                return st, None
        ex.store(st, sub(ref, 1), 0)
        return iter_next(ex, st, sub(ref, 0))
    if k == "flatmap":
        while True:
            cur = ex.load(st, ref).fields[2]
            if cur is not None:
                st, x = iter_next(ex, st, sub(ref, 2))
                if x is not None:
                    return st, x
                ex.store(st, sub(ref, 2), None)
            st, o = iter_next(ex, st, sub(ref, 0))
            if o is None:
                return st, None
            fn = ex.load(st, sub(ref, 1))
            st, inner = call_callable(ex, st, sub(ref, 1), fn, [o])
            ex.store(st, sub(ref, 2), inner)
    if k == "zip":
        st, x = iter_next(ex, st, sub(ref, 0))
        if x is None:
            return st, None
        st, y = iter_next(ex, st, sub(ref, 1))
        if y is None:
            return st, None
        return st, Agg("tuple", [x, y])
    if k == "cycle":
        st, x = iter_next(ex, st, sub(ref, 1))
        if x is not None:
            return st, x
        ex.store(st, sub(ref, 1), ex.load(st, sub(ref, 0)))
        return iter_next(ex, st, sub(ref, 1))
    if k == "product":
        # fields: a, b_orig, a_cur, b
        if f[2] == "unset":
            st, a0 = iter_next(ex, st, sub(ref, 0))
            ex.store(st, sub(ref, 2), Agg("tuple", [a0]) if a0 is not None else None)
        st, b = iter_next(ex, st, sub(ref, 3))
        if b is None:
            ex.store(st, sub(ref, 3), ex.load(st, sub(ref, 1)))
            st, b = iter_next(ex, st, sub(ref, 3))
            if b is None:
                return st, None
            st, a1 = iter_next(ex, st, sub(ref, 0))
            ex.store(st, sub(ref, 2), Agg("tuple", [a1]) if a1 is not None else None)
        acur = ex.load(st, ref).fields[2]
        if acur is None:
            return st, None
        return st, Agg("tuple", [acur.fields[0], b])
    if k == "comb2":
        # fields: inner, items(list or None), i, j
        if f[1] is None:
            items = []
            while True:
                st, x = iter_next(ex, st, sub(ref, 0))
                if x is None:
                    break
                items.append(x)
            ex.store(st, sub(ref, 1), Agg("tuple", items))
            ex.store(st, sub(ref, 2), 0)
            ex.store(st, sub(ref, 3), 1)
            f = ex.load(st, ref).fields
        items, i, j = f[1].fields, f[2], f[3]
        n = len(items)
        if i >= n - 1 or j >= n:
            return st, None
        out = Agg("tuple", [items[i], items[j]])
        j += 1
        if j >= n:
            i += 1
            j = i + 1
        ex.store(st, sub(ref, 2), i)
        ex.store(st, sub(ref, 3), j)
        return st, out
    if k == "chain":
        if f[2] == 0:
            st, x = iter_next(ex, st, sub(ref, 0))
            if x is not None:
                return st, x
            ex.store(st, sub(ref, 2), 1)
        return iter_next(ex, st, sub(ref, 1))
    if k == "copied":
        st, x = iter_next(ex, st, sub(ref, 0))
        if x is None:
            return st, None
        return st, deref_arg(ex, st, x)
    if k == "take":
        n = f[1]
        if n <= 0:
            return st, None
        ex.store(st, sub(ref, 1), n - 1)
        return iter_next(ex, st, sub(ref, 0))
    if k == "win2":
        if f[1] is None:
            items = []
            while True:
                st, x = iter_next(ex, st, sub(ref, 0))
                if x is None:
                    break
                items.append(x)
            ex.store(st, sub(ref, 1), Agg("tuple", items))
            ex.store(st, sub(ref, 2), 0)
            f = ex.load(st, ref).fields
        items, i = f[1].fields, f[2]
        if i + 1 >= len(items):
            return st, None
        ex.store(st, sub(ref, 2), i + 1)
        return st, Agg("tuple", [items[i], items[i + 1]])
    raise Unsupported("iterator kind " + k)


@builtin(r" as Iterator>::next$", "Iterator::next over the iterator models")
def b_next(ex, st, a, m, c):
    st, x = iter_next(ex, st, a[0])
    if x is None:
        return st, mk_enum("Option", "None", [])
    return st, mk_enum("Option", "Some", [x])


def scratch_iter(ex, st, itv):
    """place a by-value iterator in a scratch local of the current frame so it can be advanced"""
    fr = st.frames[-1]
    ex.fresh += 1
    slot = 100000 + ex.fresh
    fr.locals[slot] = itv
    return Ref(len(st.frames) - 1, slot, ())


def drop_scratch(st, ref):
    st.frames[ref.depth].locals.pop(ref.local, None)


@builtin(r" as Iterator>::fold::<", "Iterator::fold")
def b_fold(ex, st, a, m, c):
    r = scratch_iter(ex, st, a[0])
    acc = a[1]
    fslot = scratch_iter(ex, st, a[2])
    while True:
        st, x = iter_next(ex, st, r)
        if x is None:
            break
        st, acc = call_callable(ex, st, fslot, ex.load(st, fslot), [acc, x])
    drop_scratch(st, r)
    drop_scratch(st, fslot)
    return st, acc


@builtin(r" as Iterator>::sum::<f64>$", "Iterator::sum::<f64> (left fold of +, from -0.0)")
def b_sum(ex, st, a, m, c):
    r = scratch_iter(ex, st, a[0])
    acc = None
    while True:
        st, x = iter_next(ex, st, r)
        if x is None:
            break
        x = deref_arg(ex, st, x)
        acc = x if acc is None else T.fbin("fadd", acc, x)
    drop_scratch(st, r)
    return st, (-0.0 if acc is None else acc)


@builtin(r" as Iterator>::any::<", "Iterator::any = disjunction of the predicate over all items (predicate is pure)")
def b_any(ex, st, a, m, c):
    it_ref = a[0]  # &mut iterator
    fslot = scratch_iter(ex, st, a[1])
    res = False
    while True:
        st, x = iter_next(ex, st, it_ref)
        if x is None:
            break
        st, r = call_callable(ex, st, fslot, ex.load(st, fslot), [x])
        res = T.bor(res, r)
    drop_scratch(st, fslot)
    return st, res


@builtin(r" as Iterator>::collect::<Vec<", "Iterator::collect::<Vec<_>>")
def b_collect(ex, st, a, m, c):
    r = scratch_iter(ex, st, a[0])
    out = []
    while True:
        st, x = iter_next(ex, st, r)
        if x is None:
            break
        out.append(x)
    drop_scratch(st, r)
    return st, Agg("vec", out)


# ------------------------------------------------------------------------------- per-arm event log

LOG_SLOT = 900000


def arm_log(st):
    v = st.frames[0].locals.get(LOG_SLOT)
    return v.fields if v is not None else []


def arm_log_append(st, item):
    st.frames[0].locals[LOG_SLOT] = Agg("log", list(arm_log(st)) + [item])


# ------------------------------------------------------------------------------- rand / log

@builtin(r"as rand::SeedableRng>::seed_from_u64$", "Pcg64Mcg::seed_from_u64: opaque generator (draws are fresh symbolic values, the parameter-index stream is supplied per run)")
def b_seed(ex, st, a, m, c):
    return Agg("struct:Rng", [a[0]])


@builtin(r"^Uniform::<usize>::new::<usize, usize>$", "Uniform::new(lo, hi)")
def b_uninew(ex, st, a, m, c):
    return Agg("struct:Uniform", [a[0], a[1]])


@builtin(r"^<Uniform<usize> as rand::distributions::Distribution<usize>>::sample::<", "Uniform::sample: next entry of the run's concrete index stream")
def b_unisample(ex, st, a, m, c):
    stream = getattr(ex, "index_stream", None)
    if stream is None:
        raise Unsupported("no index stream configured")
    k = sum(1 for e in arm_log(st) if e[0] == "index")
    if k >= len(stream):
        raise Unsupported("index stream exhausted")
    u = deref_arg(ex, st, a[0])
    idx = stream[k]
    arm_log_append(st, ("index", idx))
    if not (u.fields[0] <= idx < u.fields[1]):
        raise Unsupported("index stream entry outside the distribution's range")
    return idx


@builtin(r"as rand::Rng>::gen::<f64>$", "Rng::gen::<f64>() = fresh u with 0 <= u < 1")
def b_gen(ex, st, a, m, c):
    u = ex.fresh_var("u", "F")
    st.pc.append(T.fcmp("fle", 0.0, u))
    st.pc.append(T.fcmp("flt", u, 1.0))
    ex.call_log.append(("gen", u))
    arm_log_append(st, ("gen", u))
    return u


@builtin(r"as rand::Rng>::gen_range::<f64, f64, f64>$", "Rng::gen_range(lo,hi) = fresh d with lo <= d < hi")
def b_genrange(ex, st, a, m, c):
    d = ex.fresh_var("d", "F")
    st.pc.append(T.fcmp("fle", a[1], d))
    st.pc.append(T.fcmp("flt", d, a[2]))
    ex.call_log.append(("gen_range", d))
    arm_log_append(st, ("gen_range", d))
    return d


@builtin(r"^max_level$|log::__private_api|^<Level as PartialOrd<LevelFilter>>::le$|Arguments::<'_>::new|rt::Argument::<'_>::new_", "log macros: disabled")
def b_log(ex, st, a, m, c):
    if c.endswith("::le"):
        return False
    if c == "max_level":
        return mk_enum("LevelFilter", "Off", [])
    return Agg("tuple", [])


# ------------------------------------------------------------------------------- opaque shape (C03/C02)
# Binding the generic parameter S to "opaque::Shape" keeps the state's own code (loops, image
# enumeration, weights, normalisation) and makes the shape's methods uninterpreted.

@builtin(r"^<opaque::Shape as traits::Shape>::transform$", "opaque shape: transform(t) remembers the placement")
def b_op_transform(ex, st, a, m, c):
    t = deref_arg(ex, st, a[1])
    return Agg("struct:OpaqueShape", list(t.fields[0].fields[:6]))


@builtin(r"^<opaque::Shape as traits::Potential>::energy$", "opaque shape: energy = uninterpreted E(placement1, placement2)")
def b_op_energy(ex, st, a, m, c):
    p, q = deref_arg(ex, st, a[0]), deref_arg(ex, st, a[1])
    return T.uf("E", list(p.fields) + list(q.fields))


@builtin(r"^<opaque::Shape as traits::Intersect>::intersects$", "opaque shape: intersects = uninterpreted predicate")
def b_op_intersects(ex, st, a, m, c):
    p, q = deref_arg(ex, st, a[0]), deref_arg(ex, st, a[1])
    if getattr(ex, "record_intersects", None) is not None:
        # recording mode (C01): a fresh Boolean per tested pair, logged with both placements and the
        # caller's shell count (the local the MIR's debug info names `periodic_range`)
        fr = st.frames[-1]
        k = None
        dn = fr.fn.debug.get("periodic_range")
        for dname in reversed(dn or []):
            # the innermost binding that has a value (the name may be shadowed)
            mm = re.match(r"_(\d+)$", dname)
            if mm and int(mm.group(1)) in fr.locals:
                k = fr.locals[int(mm.group(1))]
                break
        # one Boolean per distinct pair of placements (intersects is a function of its arguments)
        if not hasattr(ex, "record_x") or ex.record_x.get("__log__") is not ex.record_intersects:
            ex.record_x = {"__log__": ex.record_intersects}
        key = tuple(z.id if T.is_t(z) else ("c", z) for z in list(p.fields) + list(q.fields))
        x = ex.record_x.get(key)
        if x is None:
            x = ex.fresh_var("X", "B")
            ex.record_x[key] = x
        ex.record_intersects.append(dict(k=k, p=list(p.fields), q=list(q.fields), x=x, fn=fr.fn.name, pc=list(st.pc)))
        return x
    return T.uf("X", list(p.fields) + list(q.fields), "B")


@builtin(r"^<opaque::Shape as traits::Intersect>::area$", "opaque shape: area = symbolic constant")
def b_op_area(ex, st, a, m, c):
    return T.var("shape_area", "F")


@builtin(r"^<opaque::Shape as traits::Shape>::enclosing_radius$", "opaque shape: enclosing radius = symbolic constant")
def b_op_radius(ex, st, a, m, c):
    return T.var("shape_R", "F")


# ------------------------------------------------------------------------------- closures / Option / bits

@builtin(r" as Fn(Mut|Once)?<\(.*\)>>::call(_mut|_once)?$", "Fn::call on a closure or fn item (arguments spread from the tuple)")
def b_fn_call(ex, st, a, m, c):
    f = a[0]
    fval = ex.load(st, f) if isinstance(f, Ref) else f
    args = list(a[1].fields)
    return call_callable(ex, st, f if isinstance(f, Ref) else None, fval, args)


@builtin(r"Option::<.*>::map::<", "Option::map")
def b_opt_map(ex, st, a, m, c):
    v = a[0]
    if not isinstance(v, Enum):
        raise Unsupported("Option::map on %r" % (v,))
    fslot = scratch_iter(ex, st, a[1])
    alts = []
    for cnd, vn, f in v.alts:
        if vn == "Some":
            st, r = call_callable(ex, st, fslot, ex.load(st, fslot), [f[0]])
            alts.append((cnd, "Some", [r]))
        else:
            alts.append((cnd, "None", []))
    drop_scratch(st, fslot)
    return st, Enum("Option", alts)


@builtin(r"f64::<impl f64>::to_bits$", "f64::to_bits: concrete bits, or an order-embedding uninterpreted integer (axioms: monotone on x >= 0, >= 2^63 and order-reversing on x < 0)")
def b_to_bits(ex, st, a, m, c):
    x = a[0]
    if not T.is_t(x):
        import struct
        return struct.unpack("<Q", struct.pack("<d", float(x)))[0]
    return T.uf("to_bits", [x], "I")


@builtin(r"^<(std::option::)?Option<(u64|usize|i64|u32|i32)> as Ord>::cmp$", "Option<int>::cmp (None < Some)")
def b_opt_int_cmp(ex, st, a, m, c):
    x, y = deref_arg(ex, st, a[0]), deref_arg(ex, st, a[1])
    alts = []
    for cx, vx, fx in x.alts:
        for cy, vy, fy in y.alts:
            cnd = T.band(cx, cy)
            if cnd is False:
                continue
            if vx == "None" and vy == "None":
                alts.append((cnd, "Equal"))
            elif vx == "None":
                alts.append((cnd, "Less"))
            elif vy == "None":
                alts.append((cnd, "Greater"))
            else:
                p, q = fx[0], fy[0]
                lt, eq = T.icmp("ilt", p, q), T.icmp("ieq", p, q)
                alts.append((T.band(cnd, lt), "Less"))
                alts.append((T.band(cnd, eq), "Equal"))
                alts.append((T.band(cnd, T.bnot(lt), T.bnot(eq)), "Greater"))
    groups = {}
    for cnd, name in alts:
        if cnd is False:
            continue
        groups.setdefault(name, []).append(cnd)
    out = [(T.bor(*cs), name, []) for name, cs in groups.items()]
    if len(out) == 1:
        out = [(True, out[0][1], [])]
    return Enum("Ordering", out)


@builtin(r" as Itertools>::tuple_windows::<\(&[\w:]+, &[\w:]+\)>$", "itertools::tuple_windows for pairs (adjacent items)")
def b_tuplewin(ex, st, a, m, c):
    return it("win2", a[0], None, 0)


# ------------------------------------------------------------------------------- strings (C17)
# A string is Agg("str", [chars]) where chars is a python str (concrete) or a tuple of character
# codes (ints or integer terms).

def chars_of(v):
    c = v.fields[0]
    if isinstance(c, str):
        return [ord(ch) for ch in c]
    return list(c)


def mkstr(chars):
    return Agg("str", [tuple(chars)])


@builtin(r"core::str::<impl str>::trim_matches::<&\[char\]>$", "str::trim_matches(&[char]): strips concrete leading/trailing characters of the set (symbolic characters are assumed outside the set)")
def b_trim(ex, st, a, m, c):
    s = deref_arg(ex, st, a[0])
    pat = deref_arg(ex, st, a[1])
    pset = set(pat.fields) if isinstance(pat, Agg) else set()
    ch = chars_of(s)
    while ch and not T.is_t(ch[0]) and ch[0] in pset:
        ch = ch[1:]
    while ch and not T.is_t(ch[-1]) and ch[-1] in pset:
        ch = ch[:-1]
    return mkstr(ch)


@builtin(r"core::str::<impl str>::split_terminator::<char>$", "str::split_terminator(char) on concrete separators")
def b_split(ex, st, a, m, c):
    s = deref_arg(ex, st, a[0])
    sep = a[1]
    pieces, cur = [], []
    for chv in chars_of(s):
        if not T.is_t(chv) and chv == sep:
            pieces.append(mkstr(cur))
            cur = []
        else:
            cur.append(chv)
    if cur:
        pieces.append(mkstr(cur))
    return it("vecinto", Agg("vec", pieces), 0)


@builtin(r"core::str::<impl str>::chars$", "str::chars")
def b_chars(ex, st, a, m, c):
    s = deref_arg(ex, st, a[0])
    return it("vecinto", Agg("vec", chars_of(s)), 0)


@builtin(r"^<char as ToString>::to_string$", "char::to_string")
def b_char_to_string(ex, st, a, m, c):
    return mkstr([deref_arg(ex, st, a[0])])


@builtin(r"core::str::<impl str>::parse::<u64>$", "str::parse::<u64> of a single character: Ok(c - '0') for a digit, Err otherwise")
def b_parse_u64(ex, st, a, m, c):
    s = deref_arg(ex, st, a[0])
    ch = chars_of(s)
    if len(ch) != 1:
        if all(not T.is_t(x) for x in ch):
            try:
                return mk_enum("Result", "Ok", [int("".join(chr(x) for x in ch))])
            except ValueError:
                return mk_enum("Result", "Err", [Agg("struct:ParseIntError", [])])
        raise Unsupported("parse::<u64> of a multi-character symbolic string")
    x = ch[0]
    if not T.is_t(x):
        if 48 <= x <= 57:
            return mk_enum("Result", "Ok", [x - 48])
        return mk_enum("Result", "Err", [Agg("struct:ParseIntError", [])])
    isd = T.band(T.icmp("ile", 48, x), T.icmp("ile", x, 57))
    return Enum("Result", [(isd, "Ok", [T.ibin("isub", x, 48)]), (T.bnot(isd), "Err", [Agg("struct:ParseIntError", [])])])


@builtin(r"^<Result<.*> as Try>::branch$", "Try::branch on Result")
def b_try_branch(ex, st, a, m, c):
    v = a[0]
    alts = []
    for cnd, vn, f in v.alts:
        if vn == "Ok":
            alts.append((cnd, "Continue", [f[0]]))
        else:
            alts.append((cnd, "Break", [Enum("Result", [(True, "Err", [f[0]])])]))
    return Enum("ControlFlow", alts)


@builtin(r" as FromResidual<Result<Infallible, .*>>>::from_residual$", "FromResidual: propagate the error")
def b_from_residual(ex, st, a, m, c):
    return mk_enum("Result", "Err", [Agg("struct:Error", [])])


@builtin(r"^anyhow::private::new_adhoc::<", "anyhow error constructor (opaque)")
def b_anyhow(ex, st, a, m, c):
    return Agg("struct:Error", [])


@builtin(r"^std::fmt::format$|^must_use::<String>$|^alloc::fmt::format$", "message formatting (opaque)")
def b_format(ex, st, a, m, c):
    return Agg("str", [""])


# ------------------------------------------------------------------------------- more std (added as seeded changes pulled them in)

@builtin(r"Option::<.*>::take$", "Option::take")
def b_opt_take(ex, st, a, m, c):
    v = ex.load(st, a[0])
    ex.store(st, a[0], mk_enum("Option", "None", []))
    return v


@builtin(r"Option::<.*>::replace$", "Option::replace")
def b_opt_replace(ex, st, a, m, c):
    v = ex.load(st, a[0])
    ex.store(st, a[0], mk_enum("Option", "Some", [a[1]]))
    return v


@builtin(r"Option::<.*>::is_none$", "Option::is_none")
def b_is_none(ex, st, a, m, c):
    v = deref_arg(ex, st, a[0])
    return T.bor(*[cnd for cnd, vn, f in v.alts if vn == "None"])


@builtin(r"Option::<.*>::unwrap_or$", "Option::unwrap_or")
def b_unwrap_or(ex, st, a, m, c):
    from mirexec import merge_values
    v = a[0]
    cvs = [(cnd, f[0]) if vn == "Some" else (cnd, a[1]) for cnd, vn, f in v.alts]
    return merge_values(cvs) if len(cvs) > 1 else cvs[0][1]


@builtin(r"Option::<.*>::(as_ref|as_mut|copied|cloned)$", "Option::as_ref/copied/cloned")
def b_opt_asref(ex, st, a, m, c):
    v = a[0]
    if m.group(1) in ("as_ref", "as_mut"):
        ref = v
        ov = ex.load(st, ref)
        return Enum("Option", [(cnd, vn, [Ref(ref.depth, ref.local, ref.path + (("v", "Some"), 0))] if vn == "Some" else []) for cnd, vn, f in ov.alts])
    return Enum("Option", [(cnd, vn, [deref_arg(ex, st, f[0])] if vn == "Some" else []) for cnd, vn, f in v.alts])


@builtin(r"core::slice::<impl \[.*\]>::(first|last)$", "slice::first/last")
def b_first_last(ex, st, a, m, c):
    v = ex.load(st, a[0])
    n = len(v.fields)
    if n == 0:
        return mk_enum("Option", "None", [])
    i = 0 if m.group(1) == "first" else n - 1
    return mk_enum("Option", "Some", [Ref(a[0].depth, a[0].local, a[0].path + (i,))])


@builtin(r"core::slice::<impl \[.*\]>::(len|is_empty)$", "slice::len/is_empty")
def b_slen(ex, st, a, m, c):
    n = len(ex.load(st, a[0]).fields)
    return n if m.group(1) == "len" else (n == 0)


@builtin(r"^Vec::<.*>::(with_capacity)$", "Vec::with_capacity")
def b_vcap(ex, st, a, m, c):
    return Agg("vec", [])


@builtin(r"^Vec::<.*>::is_empty$", "Vec::is_empty")
def b_visempty(ex, st, a, m, c):
    return len(deref_arg(ex, st, a[0]).fields) == 0


@builtin(r"^Vec::<.*>::pop$", "Vec::pop")
def b_vpop(ex, st, a, m, c):
    v = ex.load(st, a[0])
    if not v.fields:
        return mk_enum("Option", "None", [])
    ex.store(st, a[0], Agg(v.kind, list(v.fields[:-1])))
    return mk_enum("Option", "Some", [v.fields[-1]])


@builtin(r" as Iterator>::chain::<", "Iterator::chain")
def b_chain(ex, st, a, m, c):
    second = a[1]
    if isinstance(second, Enum):   # Option<T> as IntoIterator
        items = [f[0] for cnd, vn, f in second.alts if vn == "Some"]
        if not second.concrete():
            raise Unsupported("chain with a symbolic Option")
        second = it("vecinto", Agg("vec", items), 0)
    return it("chain", a[0], second, 0)


@builtin(r" as Iterator>::(copied|cloned)$", "Iterator::copied/cloned")
def b_copied(ex, st, a, m, c):
    return it("copied", a[0])


@builtin(r" as Iterator>::rev$", "Iterator::rev (materialises the items)")
def b_rev(ex, st, a, m, c):
    r = scratch_iter(ex, st, a[0])
    out = []
    while True:
        st, x = iter_next(ex, st, r)
        if x is None:
            break
        out.append(x)
    drop_scratch(st, r)
    return st, it("vecinto", Agg("vec", out[::-1]), 0)


@builtin(r" as Iterator>::take$", "Iterator::take (concrete count)")
def b_take(ex, st, a, m, c):
    if T.is_t(a[1]):
        raise Unsupported("take with symbolic count")
    return it("take", a[0], a[1])


@builtin(r" as Iterator>::count$", "Iterator::count")
def b_count(ex, st, a, m, c):
    r = scratch_iter(ex, st, a[0])
    n = 0
    while True:
        st, x = iter_next(ex, st, r)
        if x is None:
            break
        n += 1
    drop_scratch(st, r)
    return st, n


@builtin(r" as Iterator>::last$", "Iterator::last")
def b_last(ex, st, a, m, c):
    r = scratch_iter(ex, st, a[0])
    last = None
    while True:
        st, x = iter_next(ex, st, r)
        if x is None:
            break
        last = x
    drop_scratch(st, r)
    return st, (mk_enum("Option", "None", []) if last is None else mk_enum("Option", "Some", [last]))


@builtin(r" as Iterator>::all::<", "Iterator::all = conjunction (pure predicate)")
def b_all(ex, st, a, m, c):
    it_ref = a[0]
    fslot = scratch_iter(ex, st, a[1])
    res = True
    while True:
        st, x = iter_next(ex, st, it_ref)
        if x is None:
            break
        st, r = call_callable(ex, st, fslot, ex.load(st, fslot), [x])
        res = T.band(res, r)
    drop_scratch(st, fslot)
    return st, res


@builtin(r" as Iterator>::sum::<(usize|u64|i64|i32|u32)>$", "Iterator::sum over integers")
def b_isum(ex, st, a, m, c):
    r = scratch_iter(ex, st, a[0])
    acc = 0
    while True:
        st, x = iter_next(ex, st, r)
        if x is None:
            break
        acc = T.ibin("iadd", acc, deref_arg(ex, st, x))
    drop_scratch(st, r)
    return st, acc


@builtin(r"^<f64 as Clone>::clone$|^<&f64 as Clone>::clone$|^<usize as Clone>::clone$|^<bool as Clone>::clone$", "Clone of a scalar")
def b_scalar_clone(ex, st, a, m, c):
    return deref_arg(ex, st, a[0])
