"""Hash-consed symbolic terms with light simplification, and SMT-LIB2 rendering in two
arithmetic modes:
  R-mode: every f64 operation is the exact real operation (QF_NRA / NIA with to_int)
  F-mode: IEEE-754 binary64, round-nearest-even (QF_FP)
Sorts: 'F' float, 'B' bool, 'I' integer (mathematical; machine-width wrap checked separately).
"""
import math
from fractions import Fraction

_TABLE = {}
REAL_SIMPLIFY = True


class T:
    __slots__ = ("op", "args", "sort", "_h", "id")
    _next = 0

    def __deepcopy__(self, memo):
        return self

    def __copy__(self):
        return self

    def __repr__(self):
        return show(self)


def mk(op, args, sort):
    key = (op, args, sort)
    t = _TABLE.get(key)
    if t is None:
        t = T()
        t.op, t.args, t.sort = op, args, sort
        t.id = T._next
        T._next += 1
        _TABLE[key] = t
    return t


def is_t(x):
    return isinstance(x, T)


def show(t, depth=4):
    if not is_t(t):
        return repr(t)
    if t.op == "var":
        return t.args[0]
    if t.op == "const":
        return repr(t.args[0])
    if depth == 0:
        return "…"
    return "(%s %s)" % (t.op, " ".join(show(a, depth - 1) if is_t(a) else repr(a) for a in t.args))


# ---------------------------------------------------------------- constructors

def var(name, sort):
    return mk("var", (name,), sort)


def fconst(x):
    return float(x)


def is_conc(x):
    return not is_t(x)


def _f(x):
    """lift python number to float-sorted operand"""
    return x


def _nonfinite(x):
    return isinstance(x, float) and (x != x or x in (float("inf"), float("-inf")))


def _has_nf_leaf(t, depth=6):
    """ite-tree with a concrete non-finite leaf (IEEE special value flowing through real-mode terms)"""
    if _nonfinite(t):
        return True
    if is_t(t) and t.op == "ite" and depth > 0:
        return _has_nf_leaf(t.args[1], depth - 1) or _has_nf_leaf(t.args[2], depth - 1)
    return False


def _lift1(f, a):
    if is_t(a) and a.op == "ite" and _has_nf_leaf(a):
        return ite(a.args[0], _lift1(f, a.args[1]), _lift1(f, a.args[2]))
    return f(a)


def _lift2(f, a, b):
    if is_t(a) and a.op == "ite" and _has_nf_leaf(a):
        return ite(a.args[0], _lift2(f, a.args[1], b), _lift2(f, a.args[2], b))
    if is_t(b) and b.op == "ite" and _has_nf_leaf(b):
        return ite(b.args[0], _lift2(f, a, b.args[1]), _lift2(f, a, b.args[2]))
    return f(a, b)


def fbin(op, a, b):
    if (is_t(a) and a.op == "ite" and _has_nf_leaf(a)) or (is_t(b) and b.op == "ite" and _has_nf_leaf(b)):
        return _lift2(lambda x, y: fbin(op, x, y), a, b)
    ca, cb = is_conc(a), is_conc(b)
    # IEEE special values meeting symbolic (finite) operands
    if op == "fdiv" and cb and float(b) == 0.0 and not ca:
        pinf = float("inf") if math.copysign(1.0, float(b)) > 0 else float("-inf")
        return ite(fcmp("flt", 0.0, a), pinf, ite(fcmp("flt", a, 0.0), -pinf, float("nan")))
    if (ca and _nonfinite(float(a)) and not cb) or (cb and _nonfinite(float(b)) and not ca):
        x, sym = (float(a), b) if ca else (float(b), a)
        if x != x:
            if op in ("fmin", "fmax"):
                return sym
            return float("nan")
        if op in ("fmin", "fmax"):
            big = x > 0
            if op == "fmin":
                return sym if big else x
            return x if big else sym
        if op in ("fadd",):
            return x
        if op == "fsub":
            return x if ca else -x
        if op == "fdiv" and cb:
            return 0.0
        if op == "fmul":
            s_ = fcmp("flt", 0.0, sym)
            return ite(s_, x, ite(fcmp("flt", sym, 0.0), -x, float("nan")))
        if op == "fdiv" and ca:
            return ite(fcmp("flt", 0.0, sym), x, ite(fcmp("flt", sym, 0.0), -x, x))
    if ca and cb:
        a, b = float(a), float(b)
        try:
            if op == "fadd":
                return a + b
            if op == "fsub":
                return a - b
            if op == "fmul":
                return a * b
            if op == "fdiv":
                if b == 0.0:
                    if a == 0.0 or a != a:
                        return float("nan")
                    neg = (math.copysign(1., a) * math.copysign(1., b)) < 0
                    return float("-inf") if neg else float("inf")
                return a / b
            if op == "frem":
                if b == 0.0 or math.isinf(a) or a != a or b != b:
                    return float("nan")
                return math.fmod(a, b)
            if op == "fmin":
                if a != a:
                    return b
                if b != b:
                    return a
                return min(a, b)
            if op == "fmax":
                if a != a:
                    return b
                if b != b:
                    return a
                return max(a, b)
        except OverflowError:
            return float("inf")
    if REAL_SIMPLIFY:
        # valid over the reals (and over finite doubles up to the sign of zero); switched off for
        # bit-precise (F-mode) obligations
        if op == "fmul" and ((ca and a == 0.0) or (cb and b == 0.0)):
            return 0.0
        if op == "fadd":
            if ca and a == 0.0:
                return b
            if cb and b == 0.0:
                return a
        if op == "fsub" and cb and b == 0.0:
            return a
        if op == "fsub" and ca and a == 0.0:
            return fun("fneg", b)
        if op == "fdiv" and ca and a == 0.0:
            return 0.0
        if op == "fmul":
            if cb and b == -1.0:
                return fun("fneg", a)
            if ca and a == -1.0:
                return fun("fneg", b)
    # identities valid in both modes:
    if op == "fmul":
        if cb and b == 1.0:
            return a
        if ca and a == 1.0:
            return b
    if op == "fdiv" and cb and b == 1.0:
        return a
    return mk(op, (a, b), "F")


def _scaled(t):
    """t == c * r for a concrete c and a symbolic r  ->  (c, r)"""
    if is_t(t) and t.op == "fmul":
        x, y = t.args
        if is_conc(x) and is_t(y):
            return float(x), y
        if is_conc(y) and is_t(x):
            return float(y), x
    if is_t(t) and t.op == "fneg":
        r = _scaled(t.args[0])
        if r:
            return -r[0], r[1]
    if is_t(t) and t.op in ("var",):
        return 1.0, t
    return None


def fun(op, a):
    if is_t(a) and a.op == "ite" and _has_nf_leaf(a):
        return _lift1(lambda x: fun(op, x), a)
    if op == "fsqrt" and REAL_SIMPLIFY and is_t(a) and a.op == "fmul" and a.args[0] is a.args[1]:
        sp = _scaled(a.args[0])
        if sp:
            return fbin("fmul", fun("fabs", sp[1]), abs(sp[0]))
        return fun("fabs", a.args[0])
    if op == "fsqrt" and REAL_SIMPLIFY and is_t(a) and a.op == "fadd":
        # sqrt((c1 r)^2 + (c2 r)^2) = |r| sqrt(c1^2 + c2^2)   (radial vertices; exact over the reals up
        # to the rounding of the concrete constant)
        p, q = a.args
        if is_t(p) and is_t(q) and p.op == "fmul" and q.op == "fmul" and p.args[0] is p.args[1] and q.args[0] is q.args[1]:
            sp, sq = _scaled(p.args[0]), _scaled(q.args[0])
            if sp and sq and sp[1] is sq[1]:
                return fbin("fmul", fun("fabs", sp[1]), math.sqrt(sp[0] * sp[0] + sq[0] * sq[0]))
    if is_conc(a):
        a = float(a)
        if op == "fneg":
            return -a
        if op == "fabs":
            return abs(a)
        if op == "fsqrt":
            return math.sqrt(a) if a >= 0 else float("nan")
        if op in ("fround", "ffloor", "fceil", "ftrunc"):
            if a != a or math.isinf(a):
                return a
            if op == "ffloor":
                return float(math.floor(a))
            if op == "fceil":
                return float(math.ceil(a))
            if op == "ftrunc":
                return float(math.trunc(a))
            # round half away from zero
            return float(math.floor(abs(a) + 0.5)) * (1.0 if a >= 0 else -1.0) if abs(a) < 2 ** 52 else a
    if op == "fneg" and is_t(a) and a.op == "fneg":
        return a.args[0]
    return mk(op, (a,), "F")


def fcmp(op, a, b):
    if (is_t(a) and a.op == "ite" and _has_nf_leaf(a)) or (is_t(b) and b.op == "ite" and _has_nf_leaf(b)):
        return _lift2(lambda x, y: fcmp(op, x, y), a, b)
    if is_conc(a) and is_conc(b):
        a, b = float(a), float(b)
        return {"flt": a < b, "fle": a <= b, "fgt": a > b, "fge": a >= b, "feq": a == b, "fne": a != b}[op]
    # a symbolic value is a finite real: comparisons with IEEE special constants are decided
    for x, other_is_left in ((a, False), (b, True)):
        if is_conc(x) and _nonfinite(float(x)):
            x = float(x)
            if x != x:
                return op == "fne"
            pos = x > 0
            # relation "sym OP x" when other_is_left else "x OP sym"
            if op in ("feq",):
                return False
            if op in ("fne",):
                return True
            if other_is_left:   # sym (a) OP x (b)
                return {"flt": pos, "fle": pos, "fgt": not pos, "fge": not pos}[op]
            return {"flt": not pos, "fle": not pos, "fgt": pos, "fge": pos}[op]
    # normalise gt/ge to lt/le
    if op == "fgt":
        return mk("flt", (b, a), "B")
    if op == "fge":
        return mk("fle", (b, a), "B")
    if op == "fne":
        return bnot(mk("feq", (a, b), "B"))
    return mk(op, (a, b), "B")


def uf(name, args, sort="F"):
    return mk("uf", (name,) + tuple(args), sort)


def band(*xs):
    out = []
    for x in xs:
        if x is True:
            continue
        if x is False:
            return False
        if is_t(x) and x.op == "and":
            out.extend(x.args)
        else:
            out.append(x)
    # dedupe preserving order
    seen, o2 = set(), []
    for x in out:
        if x.id not in seen:
            seen.add(x.id)
            o2.append(x)
    for x in o2:
        if x.op == "not" and x.args[0].id in seen:
            return False
    if not o2:
        return True
    if len(o2) == 1:
        return o2[0]
    return mk("and", tuple(o2), "B")


def bor(*xs):
    out = []
    for x in xs:
        if x is False:
            continue
        if x is True:
            return True
        if is_t(x) and x.op == "or":
            out.extend(x.args)
        else:
            out.append(x)
    seen, o2 = set(), []
    for x in out:
        if x.id not in seen:
            seen.add(x.id)
            o2.append(x)
    for x in o2:
        if x.op == "not" and x.args[0].id in seen:
            return True
    if not o2:
        return False
    if len(o2) == 1:
        return o2[0]
    return mk("or", tuple(o2), "B")


def bnot(x):
    if x is True:
        return False
    if x is False:
        return True
    if x.op == "not":
        return x.args[0]
    return mk("not", (x,), "B")


def ite(c, a, b):
    if c is True:
        return a
    if c is False:
        return b
    if is_conc(a) and is_conc(b) and type(a) == type(b) and (a == b or (a != a and b != b)):
        return a
    if is_t(a) and is_t(b) and a is b:
        return a
    sort = a.sort if is_t(a) else (b.sort if is_t(b) else ("B" if isinstance(a, bool) else ("I" if isinstance(a, int) else "F")))
    if sort == "B":
        if a is True and b is False:
            return c
        if a is False and b is True:
            return bnot(c)
        if b is False:
            return band(c, a)
        if a is True:
            return bor(c, b)
        if a is False:
            return band(bnot(c), b)
        if b is True:
            return bor(bnot(c), a)
    return mk("ite", (c, a, b), sort)


def ibin(op, a, b):
    if is_conc(a) and is_conc(b):
        if op == "iadd":
            return a + b
        if op == "isub":
            return a - b
        if op == "imul":
            return a * b
        if op == "idiv":
            return int(a / b) if b != 0 else None
        if op == "irem":
            return int(math.fmod(a, b)) if b != 0 else None
    return mk(op, (a, b), "I")


def icmp(op, a, b):
    if is_conc(a) and is_conc(b):
        return {"ilt": a < b, "ile": a <= b, "igt": a > b, "ige": a >= b, "ieq": a == b, "ine": a != b}[op]
    if op == "igt":
        return mk("ilt", (b, a), "B")
    if op == "ige":
        return mk("ile", (b, a), "B")
    if op == "ine":
        return bnot(mk("ieq", (a, b), "B"))
    return mk(op, (a, b), "B")


def i2f(a):
    if is_conc(a):
        return float(a)
    return mk("i2f", (a,), "F")


def beq(a, b):
    """boolean equality"""
    if is_conc(a) and is_conc(b):
        return a == b
    return bor(band(a, b), band(bnot(a), bnot(b)))


# ---------------------------------------------------------------- rendering

def rat(x):
    """exact rational literal of a python float, SMT-LIB Real syntax"""
    fr = Fraction(x)
    if fr.denominator == 1:
        s = "%d.0" % abs(fr.numerator)
    else:
        s = "(/ %d.0 %d.0)" % (abs(fr.numerator), fr.denominator)
    return "(- %s)" % s if fr < 0 else s


def fp_lit(x):
    import struct
    b = struct.unpack("<Q", struct.pack("<d", x))[0]
    return "(fp #b%d #b%s #x%013x)" % (b >> 63, format((b >> 52) & 0x7FF, "011b"), b & ((1 << 52) - 1))


class Render:
    """Render terms as SMT-LIB with let-free shared definitions (define-fun per shared node)."""

    def __init__(self, mode):
        assert mode in ("R", "F")
        self.mode = mode
        self.decls = {}   # name -> decl line
        self.defs = []    # define-fun lines in order
        self.names = {}   # term id -> name
        self.ufs = {}
        self.nonfinite_const = False

    def sort(self, s):
        if s == "B":
            return "Bool"
        if s == "I":
            return "Int"
        return "Real" if self.mode == "R" else "(_ FloatingPoint 11 53)"

    def lit(self, x):
        if isinstance(x, bool):
            return "true" if x else "false"
        if isinstance(x, int):
            return str(x) if x >= 0 else "(- %d)" % -x
        if isinstance(x, float):
            if self.mode == "R":
                if x != x or math.isinf(x):
                    self.nonfinite_const = True
                    return "0.0"
                return rat(x)
            return fp_lit(x)
        raise TypeError(x)

    def r(self, t):
        if not is_t(t):
            return self.lit(t)
        n = self.names.get(t.id)
        if n is not None:
            return n
        s = self._r(t)
        if t.op == "var":
            self.names[t.id] = s
            return s
        name = "t%d" % t.id
        self.defs.append("(define-fun %s () %s %s)" % (name, self.sort(t.sort), s))
        self.names[t.id] = name
        return name

    def _r(self, t):
        op, a = t.op, t.args
        R = self.mode == "R"
        if op == "var":
            nm = a[0]
            self.decls[nm] = "(declare-const %s %s)" % (nm, self.sort(t.sort))
            return nm
        if op in ("fadd", "fsub", "fmul", "fdiv"):
            x, y = self.r(a[0]), self.r(a[1])
            if R:
                return "(%s %s %s)" % ({"fadd": "+", "fsub": "-", "fmul": "*", "fdiv": "/"}[op], x, y)
            return "(fp.%s RNE %s %s)" % (op[1:], x, y)
        if op == "frem":
            x, y = self.r(a[0]), self.r(a[1])
            if R:
                # truncated remainder: x - y*trunc(x/y)
                q = "(/ %s %s)" % (x, y)
                tr = "(ite (>= %s 0.0) (to_real (to_int %s)) (- (to_real (to_int (- %s)))))" % (q, q, q)
                return "(- %s (* %s %s))" % (x, y, tr)
            if not is_t(a[1]) and float(a[1]) == 1.0:
                return "(fp.sub RNE %s (fp.roundToIntegral RTZ %s))" % (x, x)
            raise NotImplementedError("F-mode frem with non-unit period")
        if op == "fneg":
            return ("(- %s)" if R else "(fp.neg %s)") % self.r(a[0])
        if op == "fabs":
            x = self.r(a[0])
            return ("(ite (>= %s 0.0) %s (- %s))" % (x, x, x)) if R else "(fp.abs %s)" % x
        if op == "fsqrt":
            x = self.r(a[0])
            if R:
                # introduce s with s>=0, s*s = x (valid for x>=0; the obligation must guard x>=0)
                nm = "sqrt_%d" % t.id
                self.decls[nm] = "(declare-const %s Real)\n(assert (>= %s 0.0))\n(assert (= (* %s %s) %s))" % (nm, nm, nm, nm, "__ARG__")
                self.decls[nm] = self.decls[nm].replace("__ARG__", x)
                # the argument's definition must precede: emit as late declaration
                self.defs.append(self.decls.pop(nm))
                return nm
            return "(fp.sqrt RNE %s)" % x
        if op in ("fround", "ffloor", "fceil", "ftrunc"):
            x = self.r(a[0])
            if R:
                fl = "(to_real (to_int %s))" % x               # floor
                if op == "ffloor":
                    return fl
                if op == "fceil":
                    return "(- (to_real (to_int (- %s))))" % x
                if op == "ftrunc":
                    return "(ite (>= %s 0.0) %s (- (to_real (to_int (- %s)))))" % (x, fl, x)
                # round half away from zero: sign(x) * floor(|x| + 1/2)
                return "(ite (>= %s 0.0) (to_real (to_int (+ %s 0.5))) (- (to_real (to_int (+ (- %s) 0.5)))))" % (x, x, x)
            mode = {"fround": "RNA", "ffloor": "RTN", "fceil": "RTP", "ftrunc": "RTZ"}[op]
            return "(fp.roundToIntegral %s %s)" % (mode, x)
        if op in ("fmin", "fmax"):
            x, y = self.r(a[0]), self.r(a[1])
            if R:
                return "(ite (%s %s %s) %s %s)" % ("<=" if op == "fmin" else ">=", x, y, x, y)
            # Rust f64::min/max: NaN-ignoring
            c = "fp.leq" if op == "fmin" else "fp.geq"
            return "(ite (fp.isNaN %s) %s (ite (fp.isNaN %s) %s (ite (%s %s %s) %s %s)))" % (x, y, y, x, c, x, y, x, y)
        if op in ("flt", "fle", "feq"):
            x, y = self.r(a[0]), self.r(a[1])
            if R:
                return "(%s %s %s)" % ({"flt": "<", "fle": "<=", "feq": "="}[op], x, y)
            return "(fp.%s %s %s)" % ({"flt": "lt", "fle": "leq", "feq": "eq"}[op], x, y)
        if op == "and":
            return "(and %s)" % " ".join(self.r(x) for x in a)
        if op == "or":
            return "(or %s)" % " ".join(self.r(x) for x in a)
        if op == "not":
            return "(not %s)" % self.r(a[0])
        if op == "ite":
            return "(ite %s %s %s)" % (self.r(a[0]), self.r(a[1]), self.r(a[2]))
        if op == "uf":
            nm = "uf_" + a[0]
            args = a[1:]
            sorts = " ".join(self.sort(x.sort if is_t(x) else ("I" if isinstance(x, int) and not isinstance(x, bool) else "F")) for x in args)
            self.ufs[nm] = "(declare-fun %s (%s) %s)" % (nm, sorts, self.sort(t.sort))
            return "(%s %s)" % (nm, " ".join(self.r(x) for x in args))
        if op in ("iadd", "isub", "imul"):
            return "(%s %s %s)" % ({"iadd": "+", "isub": "-", "imul": "*"}[op], self.r(a[0]), self.r(a[1]))
        if op in ("ilt", "ile", "ieq"):
            return "(%s %s %s)" % ({"ilt": "<", "ile": "<=", "ieq": "="}[op], self.r(a[0]), self.r(a[1]))
        if op == "i2f":
            x = self.r(a[0])
            return "(to_real %s)" % x if R else "((_ to_fp 11 53) RNE (to_real %s))" % x
        raise NotImplementedError(op)

    def script(self, asserts, get=None, logic=None, timeout_ms=None):
        body = [self.r(x) for x in asserts]
        lines = ["(set-logic %s)" % (logic or "ALL")]
        if timeout_ms:
            lines.append("(set-option :timeout %d)" % timeout_ms)
        lines.append("(set-option :pp.decimal true)")
        lines.append("(set-option :pp.decimal_precision 20)")
        lines += list(self.ufs.values())
        lines += list(self.decls.values())
        lines += self.defs
        for b in body:
            lines.append("(assert %s)" % b)
        lines.append("(check-sat)")
        if get:
            lines.append("(get-value (%s))" % " ".join(self.r(g) for g in get))
        return "\n".join(lines) + "\n"


def bits_axioms(ts):
    """instance axioms for the order-embedding abstraction of f64::to_bits"""
    seen, apps, stack = set(), [], [t for t in ts if is_t(t)]
    while stack:
        t = stack.pop()
        if t.id in seen:
            continue
        seen.add(t.id)
        if t.op == "uf" and t.args[0] == "to_bits":
            apps.append(t)
        stack.extend(x for x in t.args if is_t(x))
    ax = []
    two63 = 2 ** 63
    for a in apps:
        x = a.args[1]
        neg = fcmp("flt", x, 0.0)
        ax += [bor(bnot(neg), icmp("ile", two63, a)), bor(neg, band(icmp("ile", 0, a), icmp("ilt", a, two63))), icmp("ilt", a, 2 ** 64)]
    for i in range(len(apps)):
        for j in range(len(apps)):
            if i == j:
                continue
            a, b = apps[i], apps[j]
            x, y = a.args[1], b.args[1]
            both_pos = band(fcmp("fle", 0.0, x), fcmp("fle", 0.0, y))
            both_neg = band(fcmp("flt", x, 0.0), fcmp("flt", y, 0.0))
            ax.append(bor(bnot(both_pos), beq(fcmp("flt", x, y), icmp("ilt", a, b))))
            ax.append(bor(bnot(both_neg), beq(fcmp("flt", x, y), icmp("ilt", b, a))))
            if i < j:
                ax.append(bor(bnot(fcmp("feq", x, y)), icmp("ieq", a, b)))
    return ax


def subst(t, mapping, memo=None):
    """replace variables (by term id) according to mapping {var term id: replacement}"""
    if memo is None:
        memo = {}
    if not is_t(t):
        return t
    if t.id in memo:
        return memo[t.id]
    if t.id in mapping:
        r = mapping[t.id]
    elif t.op in ("var", "const"):
        r = t
    else:
        args = tuple(subst(a, mapping, memo) if is_t(a) else a for a in t.args)
        if all(x is y for x, y in zip(args, t.args)):
            r = t
        else:
            r = rebuild(t.op, args, t.sort)
    memo[t.id] = r
    return r


def rebuild(op, args, sort):
    if op in ("fadd", "fsub", "fmul", "fdiv", "frem", "fmin", "fmax"):
        return fbin(op, *args)
    if op in ("fneg", "fabs", "fsqrt", "fround", "ffloor", "fceil", "ftrunc"):
        return fun(op, *args)
    if op in ("flt", "fle", "feq"):
        return fcmp(op, *args)
    if op == "and":
        return band(*args)
    if op == "or":
        return bor(*args)
    if op == "not":
        return bnot(args[0])
    if op == "ite":
        return ite(*args)
    if op in ("iadd", "isub", "imul"):
        return ibin(op, *args)
    if op in ("ilt", "ile", "ieq"):
        return icmp(op, *args)
    if op == "i2f":
        return i2f(args[0])
    return mk(op, args, sort)


def free_vars(ts):
    seen, out, stack = set(), [], list(ts)
    while stack:
        t = stack.pop()
        if not is_t(t) or t.id in seen:
            continue
        seen.add(t.id)
        if t.op == "var":
            out.append(t)
        else:
            stack.extend(x for x in t.args if is_t(x))
    return out


def evaluate(t, env, funcs=None):
    """Concrete evaluation with python floats (IEEE double) — used for encoder validation."""
    funcs = funcs or {}
    memo = {}

    def ev(x):
        if not is_t(x):
            return x
        if x.id in memo:
            return memo[x.id]
        op, a = x.op, x.args
        if op == "var":
            v = env[a[0]]
        elif op in ("fadd", "fsub", "fmul", "fdiv", "frem", "fmin", "fmax"):
            v = fbin(op, ev(a[0]), ev(a[1]))
        elif op in ("fneg", "fabs", "fsqrt", "fround", "ffloor", "fceil", "ftrunc"):
            v = fun(op, ev(a[0]))
        elif op in ("flt", "fle", "feq"):
            v = fcmp(op, ev(a[0]), ev(a[1]))
        elif op == "and":
            v = all(ev(y) for y in a)
        elif op == "or":
            v = any(ev(y) for y in a)
        elif op == "not":
            v = not ev(a[0])
        elif op == "ite":
            v = ev(a[1]) if ev(a[0]) else ev(a[2])
        elif op == "uf":
            v = funcs[a[0]](*[ev(y) for y in a[1:]])
        elif op in ("iadd", "isub", "imul"):
            v = ibin(op, ev(a[0]), ev(a[1]))
        elif op in ("ilt", "ile", "ieq"):
            v = icmp(op, ev(a[0]), ev(a[1]))
        elif op == "i2f":
            v = float(ev(a[0]))
        else:
            raise NotImplementedError(op)
        memo[x.id] = v
        return v

    return ev(t)
