//! Evaluate named real functions on concrete inputs (one JSON object per stdin line), and dump
//! the concrete data the symbolic engine needs as *inputs* (group tables as produced by the real
//! parser, shapes as produced by the real constructors).
use nalgebra::Matrix3;
use packing::traits::*;
use packing::wallpaper::{get_wallpaper_group, WallpaperGroups, WyckoffSite};
use packing::*;
use serde_json::{json, Value};

pub fn eval_stdin() -> i32 {
    use std::io::BufRead;
    let stdin = std::io::stdin();
    for line in stdin.lock().lines() {
        let line = line.unwrap();
        if line.trim().is_empty() {
            continue;
        }
        let v: Value = serde_json::from_str(&line).unwrap();
        let r = std::panic::catch_unwind(|| eval(&v));
        match r {
            Ok(x) => println!("{}", x),
            Err(_) => println!("{}", json!({"panic": true})),
        }
    }
    0
}

fn fl(x: f64) -> Value {
    if x.is_nan() {
        json!("nan")
    } else if x.is_infinite() {
        json!(if x > 0. { "inf" } else { "-inf" })
    } else {
        json!(x)
    }
}

fn f(v: &Value) -> f64 {
    match v {
        Value::String(s) => match s.as_str() {
            "nan" => f64::NAN,
            "inf" => f64::INFINITY,
            "-inf" => f64::NEG_INFINITY,
            _ => s.parse().unwrap(),
        },
        _ => v.as_f64().unwrap(),
    }
}

fn mat(t: &Transform2) -> Vec<Value> {
    let m: Matrix3<f64> = (*t).into();
    let mut out = vec![];
    for r in 0..3 {
        for c in 0..3 {
            out.push(fl(m[(r, c)]));
        }
    }
    out
}

fn tr(v: &Value) -> Transform2 {
    let a: Vec<f64> = v.as_array().unwrap().iter().map(f).collect();
    Transform2::from(Matrix3::new(a[0], a[1], a[2], a[3], a[4], a[5], a[6], a[7], a[8]))
}

pub fn groups() -> Vec<(&'static str, WallpaperGroups)> {
    vec![
        ("p1", WallpaperGroups::p1),
        ("p2", WallpaperGroups::p2),
        ("p1m1", WallpaperGroups::p1m1),
        ("p1g1", WallpaperGroups::p1g1),
        ("p2mm", WallpaperGroups::p2mm),
        ("p2mg", WallpaperGroups::p2mg),
        ("p2gg", WallpaperGroups::p2gg),
    ]
}

pub fn data(args: &[String]) -> i32 {
    let mut out = serde_json::Map::new();
    let mut gs = serde_json::Map::new();
    for (n, g) in groups() {
        let wg = get_wallpaper_group(g).unwrap();
        let site = WyckoffSite::new(&wg).unwrap();
        gs.insert(
            n.to_string(),
            json!({"name": wg.name, "family": format!("{:?}", wg.family), "strings": wg.wyckoff_str,
                   "ops": site.symmetries.iter().map(mat).collect::<Vec<_>>()}),
        );
    }
    out.insert("groups".into(), Value::Object(gs));
    let mut shapes = serde_json::Map::new();
    for n in 3..=12usize {
        let p = LineShape::polygon(n).unwrap();
        shapes.insert(
            format!("polygon{}", n),
            json!({"kind": "line", "items": p.items.iter().map(|l| vec![fl(l.start.x), fl(l.start.y), fl(l.end.x), fl(l.end.y)]).collect::<Vec<_>>(),
                   "area": fl(p.area()), "enclosing_radius": fl(p.enclosing_radius())}),
        );
    }
    let mol = |m: &MolecularShape2| {
        json!({"kind": "mol", "items": m.items.iter().map(|a| vec![fl(a.position.x), fl(a.position.y), fl(a.radius)]).collect::<Vec<_>>(),
               "area": fl(m.area()), "enclosing_radius": fl(m.enclosing_radius())})
    };
    let lj = |m: &LJShape2| {
        json!({"kind": "lj", "items": m.items.iter().map(|a| vec![fl(a.position.x), fl(a.position.y), fl(a.sigma), fl(a.epsilon),
                 match a.cutoff { Some(c) => fl(c), None => Value::Null }]).collect::<Vec<_>>(),
               "enclosing_radius": fl(m.enclosing_radius())})
    };
    shapes.insert("circle".into(), mol(&MolecularShape2::circle()));
    shapes.insert("ljcircle".into(), lj(&LJShape2::circle()));
    // trimers: default CLI parameters plus any "r,a,d" triples given on the command line
    let mut trimers = vec![(0.637556, 120., 1.)];
    for a in args {
        let p: Vec<f64> = a.split(',').map(|x| x.parse().unwrap()).collect();
        trimers.push((p[0], p[1], p[2]));
    }
    for (r, a, d) in trimers {
        shapes.insert(format!("trimer:{},{},{}", r, a, d), mol(&MolecularShape2::from_trimer(r, a, d)));
        shapes.insert(format!("ljtrimer:{},{},{}", r, a, d), lj(&LJShape2::from_trimer(r, a, d)));
    }
    out.insert("shapes".into(), Value::Object(shapes));
    println!("{}", Value::Object(out));
    0
}

fn line(v: &Value) -> Line2 {
    let a: Vec<f64> = v.as_array().unwrap().iter().map(f).collect();
    Line2::new((a[0], a[1]), (a[2], a[3]))
}

fn cell(v: &Value) -> Cell2 {
    // {"length":..,"ratio":..,"angle":..,"family":"Monoclinic"}
    serde_json::from_value(v.clone()).unwrap()
}

fn eval(v: &Value) -> Value {
    let name = v["fn"].as_str().unwrap();
    let a = &v["args"];
    match name {
        "Line2::intersects" => json!(line(&a[0]).intersects(&line(&a[1]))),
        "Atom2::intersects" => {
            let p: Vec<f64> = a[0].as_array().unwrap().iter().map(f).collect();
            let q: Vec<f64> = a[1].as_array().unwrap().iter().map(f).collect();
            json!(Atom2::new(p[0], p[1], p[2]).intersects(&Atom2::new(q[0], q[1], q[2])))
        }
        "LJ2::energy" => {
            let mk = |x: &Value| {
                let p: Vec<Value> = x.as_array().unwrap().clone();
                LJ2 {
                    position: nalgebra::Point2::new(f(&p[0]), f(&p[1])),
                    sigma: f(&p[2]),
                    epsilon: f(&p[3]),
                    cutoff: if p[4].is_null() { None } else { Some(f(&p[4])) },
                }
            };
            fl(mk(&a[0]).energy(&mk(&a[1])))
        }
        "LJShape2::energy" => {
            // [[particle...], [particle...]] -> molecule energy and the plain sum over particle pairs
            let mk = |x: &Value| {
                let p: Vec<Value> = x.as_array().unwrap().clone();
                LJ2 {
                    position: nalgebra::Point2::new(f(&p[0]), f(&p[1])),
                    sigma: f(&p[2]),
                    epsilon: f(&p[3]),
                    cutoff: if p[4].is_null() { None } else { Some(f(&p[4])) },
                }
            };
            let ma = LJShape2 { name: "a".into(), items: a[0].as_array().unwrap().iter().map(mk).collect() };
            let mb = LJShape2 { name: "b".into(), items: a[1].as_array().unwrap().iter().map(mk).collect() };
            let mut sum = 0.;
            for s in ma.items.iter() {
                for o in mb.items.iter() {
                    sum += s.energy(o);
                }
            }
            json!({"energy": fl(ma.energy(&mb)), "pair_sum": fl(sum)})
        }
        "Cell2::to_cartesian" => {
            let c = cell(&a[0]);
            let (x, y) = c.to_cartesian(f(&a[1]), f(&a[2]));
            json!([fl(x), fl(y)])
        }
        "Cell2::area" => fl(cell(&a[0]).area()),
        "Transform2::periodic" => json!(mat(&tr(&a[0]).periodic(f(&a[1]), f(&a[2])))),
        "Transform2*Transform2" => json!(mat(&(tr(&a[0]) * tr(&a[1])))),
        "Transform2*Point" => {
            let p = tr(&a[0]) * nalgebra::Point2::new(f(&a[1]), f(&a[2]));
            json!([fl(p.x), fl(p.y)])
        }
        "Transform2::new" => json!(mat(&Transform2::new(f(&a[0]), (f(&a[1]), f(&a[2]))))),
        "Transform2::from_operations" => match Transform2::from_operations(a[0].as_str().unwrap()) {
            Ok(t) => json!({"ok": mat(&t)}),
            Err(_) => json!({"err": true}),
        },
        "PackedState::score" | "PackedState::positions" => {
            let kind = a[0].as_str().unwrap();
            let js = a[1].to_string();
            macro_rules! go {
                ($t:ty) => {{
                    let s: PackedState<$t> = serde_json::from_str(&js).unwrap();
                    if name == "PackedState::score" {
                        match s.score() {
                            Some(x) => json!({"some": fl(x)}),
                            None => json!({"none": true}),
                        }
                    } else {
                        json!({"rel": s.relative_positions().map(|t| mat(&t)).collect::<Vec<_>>(),
                               "cart": s.cartesian_positions().map(|t| mat(&t)).collect::<Vec<_>>()})
                    }
                }};
            }
            match kind {
                "line" => go!(LineShape),
                _ => go!(MolecularShape2),
            }
        }
        "Cell2::basis_ranges" => {
            // [cell] -> for every degree of freedom [value, lower bound, upper bound], the bounds probed through the
            // public Basis API (set_value clamps; the value is restored afterwards)
            let c = cell(&a[0]);
            let mut out = vec![];
            for mut b in c.get_degrees_of_freedom() {
                let v = b.get_value();
                b.set_value(-1e300);
                let lo = b.get_value();
                b.set_value(1e300);
                let hi = b.get_value();
                b.set_value(v);
                out.push(json!([fl(v), fl(lo), fl(hi)]));
            }
            json!(out)
        }
        "Cell2::periodic_images" => {
            // [cell, placement (9 entries), shells, zero] -> the images as matrices, in iteration order
            let c = cell(&a[0]);
            let imgs: Vec<Value> = c
                .periodic_images(tr(&a[1]), a[2].as_i64().unwrap(), a[3].as_bool().unwrap())
                .map(|t| json!(mat(&t)))
                .collect();
            json!(imgs)
        }
        "LineShape::intersects" => {
            // [radii, placement A, placement B] -> the polygon overlap test in both argument orders
            let radii: Vec<f64> = a[0].as_array().unwrap().iter().map(f).collect();
            match LineShape::from_radial("P", radii) {
                Ok(s) => {
                    let (sa, sb) = (s.transform(&tr(&a[1])), s.transform(&tr(&a[2])));
                    json!({"ab": sa.intersects(&sb), "ba": sb.intersects(&sa),
                           "va": sa.items.iter().map(|l| vec![fl(l.start.x), fl(l.start.y)]).collect::<Vec<_>>(),
                           "vb": sb.items.iter().map(|l| vec![fl(l.start.x), fl(l.start.y)]).collect::<Vec<_>>()})
                }
                Err(_) => json!({"err": true}),
            }
        }
        "LineShape::radial_area" => {
            let radii: Vec<f64> = a[0].as_array().unwrap().iter().map(f).collect();
            match LineShape::from_radial("P", radii) {
                Ok(s) => json!({"area": fl(s.area()), "vertices": s.items.iter().map(|l| vec![fl(l.start.x), fl(l.start.y)]).collect::<Vec<_>>()}),
                Err(_) => json!({"err": true}),
            }
        }
        "State::order" => {
            // [kind, state1, state2] -> scores and the orderings the real Ord/PartialOrd give
            let kind = a[0].as_str().unwrap();
            let (j1, j2) = (a[1].to_string(), a[2].to_string());
            let ord = |o: Option<std::cmp::Ordering>| match o {
                Some(std::cmp::Ordering::Less) => json!("Less"),
                Some(std::cmp::Ordering::Equal) => json!("Equal"),
                Some(std::cmp::Ordering::Greater) => json!("Greater"),
                None => Value::Null,
            };
            macro_rules! go {
                ($t:ty) => {{
                    let s1: $t = serde_json::from_str(&j1).unwrap();
                    let s2: $t = serde_json::from_str(&j2).unwrap();
                    let c = std::panic::catch_unwind(std::panic::AssertUnwindSafe(|| s1.cmp(&s2)));
                    let mx = std::panic::catch_unwind(std::panic::AssertUnwindSafe(|| {
                        let m = std::cmp::max(s1.clone(), s2.clone());
                        m.score()
                    }));
                    json!({"s1": s1.score().map(fl), "s2": s2.score().map(fl), "partial_cmp": ord(s1.partial_cmp(&s2)),
                           "cmp": match c { Ok(x) => ord(Some(x)), Err(_) => json!("panic") },
                           "max_score": match mx { Ok(x) => json!(x.map(fl)), Err(_) => json!("panic") }})
                }};
            }
            match kind {
                "lj" => go!(PotentialState<LJShape2>),
                "line" => go!(PackedState<LineShape>),
                _ => go!(PackedState<MolecularShape2>),
            }
        }
        "PotentialState::score" => {
            let s: PotentialState<LJShape2> = serde_json::from_str(&a[0].to_string()).unwrap();
            match s.score() {
                Some(x) => json!({"some": fl(x)}),
                None => json!({"none": true}),
            }
        }
        _ => json!({"unknown": name}),
    }
}
