//! Native replay / oracle binary. Runs the *real* library on concrete inputs.
//!   pv_replay opt <file.json>      replay an optimiser counterexample with the scripted mock
//!   pv_replay eval                 evaluate named real functions on JSON lines from stdin
#![allow(static_mut_refs)]
#[path = "../../kani/src/monitor.rs"]
mod monitor;
mod evalfns;
mod oracle;

use monitor::*;
use serde_json::{json, Value};

fn f(v: &Value) -> f64 {
    match v {
        Value::String(s) => match s.as_str() {
            "nan" => f64::NAN,
            "inf" => f64::INFINITY,
            "-inf" => f64::NEG_INFINITY,
            _ => s.parse().unwrap(),
        },
        _ => v.as_f64().unwrap(),
    }
}
fn fo(v: &Value) -> Option<f64> {
    if v.is_null() {
        None
    } else {
        Some(f(v))
    }
}

fn replay_opt(path: &str) -> i32 {
    let txt = std::fs::read_to_string(path).expect("read replay file");
    let v: Value = serde_json::from_str(&txt).expect("json");
    let c = &v["cfg"];
    let np = c["np"].as_u64().unwrap() as usize;
    let mut lo = [0.; NP];
    let mut hi = [1.; NP];
    let mut init = [0.; NP];
    for i in 0..np {
        lo[i] = f(&c["lo"][i]);
        hi[i] = f(&c["hi"][i]);
        init[i] = f(&v["init"][i]);
    }
    let cfg = Cfg {
        steps: c["steps"].as_u64().unwrap(),
        inner: c["inner"].as_u64().unwrap(),
        kt_start: f(&c["kt_start"]),
        kt_finish: fo(&c["kt_finish"]),
        kt_ratio: fo(&c["kt_ratio"]),
        max_step: f(&c["max_step"]),
        conv: fo(&c["conv"]),
        seed: c["seed"].as_u64().unwrap(),
        np,
        lo,
        hi,
    };
    let mut score = [0.; MAXC];
    for t in 0..MAXC {
        if let Some(x) = v["script"]["score"].get(t) {
            score[t] = f(x);
        }
    }
    let script = Script {
        valid: v["script"]["valid"].as_u64().unwrap(),
        score,
        init_score: f(&v["script"]["init_score"]),
    };
    install(cfg, script, init, 0, 0.);
    // replica of the seeded generator in the baseline consumption order (index, move, acceptance)
    {
        use rand::distributions::{Distribution, Uniform};
        use rand::{Rng, SeedableRng};
        let mut rng = rand_pcg::Pcg64Mcg::seed_from_u64(cfg.seed);
        let dist = Uniform::new(0usize, np.max(1));
        let m = mon();
        let mut k = 0;
        while k < MAXC {
            let _i: usize = dist.sample(&mut rng);
            let _d: f64 = rng.gen_range(-0.5, 0.5);
            m.draws[k] = rng.gen::<f64>();
            k += 1;
        }
        m.draws_n = if v["no_draws"].as_bool().unwrap_or(false) { 0 } else { MAXC };
    }
    let r = std::panic::catch_unwind(|| run(&cfg, init));
    let m = mon();
    let panicked = r.is_err();
    let fl = m.flags;
    let out = json!({
        "panicked": panicked,
        "calls": m.calls, "proposals": m.proposals, "accepted": m.accepted, "rejected": m.rejected,
        "reliable": m.reliable, "first_bad_call": if m.first_bad_call == usize::MAX { -1 } else { m.first_bad_call as i64 },
        "conv_stop_at": m.conv_stop_at, "loops_done": m.loops_done,
        "flags": {"multi_param": fl.multi_param, "bad_held": fl.bad_held, "big_move": fl.big_move,
                  "out_of_range": fl.out_of_range, "prob": fl.prob, "overflow": fl.overflow, "bad_count": fl.bad_count},
        "vecs": (0..m.calls.min(MAXC)).map(|t| (0..np).map(|j| f64::from_bits(m.vecs[t][j])).collect::<Vec<_>>()).collect::<Vec<_>>(),
    });
    println!("{}", out);
    0
}

/// rng <seed> <nparams> <steps>: the draws of the seeded generator in the baseline consumption
/// order of one Monte-Carlo step (parameter index, move in [-1/2,1/2), acceptance draw in [0,1)).
fn rng_stream(args: &[String]) -> i32 {
    use rand::distributions::{Distribution, Uniform};
    use rand::{Rng, SeedableRng};
    let seed: u64 = args[0].parse().unwrap();
    let n: usize = args[1].parse().unwrap();
    let steps: usize = args[2].parse().unwrap();
    let mut rng = rand_pcg::Pcg64Mcg::seed_from_u64(seed);
    let dist = Uniform::new(0usize, n);
    let mut idx = vec![];
    let mut ds = vec![];
    let mut us = vec![];
    for _ in 0..steps {
        idx.push(dist.sample(&mut rng));
        ds.push(rng.gen_range(-0.5, 0.5));
        us.push(rng.gen::<f64>());
    }
    println!("{}", json!({"index": idx, "move": ds, "accept": us}));
    0
}

fn main() {
    let args: Vec<String> = std::env::args().collect();
    let code = match args.get(1).map(|s| s.as_str()) {
        Some("opt") => replay_opt(&args[2]),
        Some("eval") => evalfns::eval_stdin(),
        Some("oracle") => oracle::main(&args[2..]),
        Some("data") => evalfns::data(&args[2..]),
        Some("rng") => rng_stream(&args[2..]),
        _ => {
            eprintln!("usage: pv_replay opt <file> | eval | oracle ...");
            2
        }
    };
    std::process::exit(code);
}
