pub fn main(_args: &[String]) -> i32 {
    0
}
