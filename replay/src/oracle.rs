//! Independent oracles, used only when a solver counterexample is replayed:
//!   oracle lj <K>        stdin: PotentialState<LJShape2> JSON -> real score vs direct lattice sum
//!   oracle overlap <kind> stdin: PackedState JSON (kind = line | mol) -> real score vs exhaustive
//!                         lattice overlap search with independent geometry
//!   oracle area          stdin: MolecularShape2 JSON -> real area() vs exact union area of discs
use nalgebra::Matrix3;
use packing::traits::*;
use packing::*;
use serde_json::{json, Value};
use std::io::Read;

fn fl(x: f64) -> Value {
    if x.is_nan() {
        json!("nan")
    } else if x.is_infinite() {
        json!(if x > 0. { "inf" } else { "-inf" })
    } else {
        json!(x)
    }
}

fn stdin_all() -> String {
    let mut s = String::new();
    std::io::stdin().read_to_string(&mut s).unwrap();
    s
}

fn mat(t: &Transform2) -> [f64; 9] {
    let m: Matrix3<f64> = (*t).into();
    [m[(0, 0)], m[(0, 1)], m[(0, 2)], m[(1, 0)], m[(1, 1)], m[(1, 2)], m[(2, 0)], m[(2, 1)], m[(2, 2)]]
}

fn lattice(cell: &Value) -> ([f64; 2], [f64; 2]) {
    let a = cell["length"].as_f64().unwrap();
    let q = cell["ratio"].as_f64().unwrap();
    let t = cell["angle"].as_f64().unwrap();
    ([a, 0.], [a * q * t.cos(), a * q * t.sin()])
}

fn with_translation(m: &[f64; 9], dx: f64, dy: f64) -> Transform2 {
    Transform2::from(Matrix3::new(m[0], m[1], m[2] + dx, m[3], m[4], m[5] + dy, m[6], m[7], m[8]))
}

fn lj(args: &[String]) -> i32 {
    let k: i64 = args.get(0).map(|s| s.parse().unwrap()).unwrap_or(3);
    let txt = stdin_all();
    let v: Value = serde_json::from_str(&txt).unwrap();
    let st: PotentialState<LJShape2> = serde_json::from_str(&txt).unwrap();
    let real = st.score();
    let (a, b) = lattice(&v["cell"]);
    let pos: Vec<[f64; 9]> = st.cartesian_positions().map(|t| mat(&t)).collect();
    let n = pos.len();
    // direct sum: every ordered pair (i, (j,T)) with (j,T) != (i,0) weighs 1/2
    let mut sum = 0.;
    for i in 0..n {
        let si = st.shape.transform(&with_translation(&pos[i], 0., 0.));
        for j in 0..n {
            for nx in -k..=k {
                for my in -k..=k {
                    if i == j && nx == 0 && my == 0 {
                        continue;
                    }
                    let dx = nx as f64 * a[0] + my as f64 * b[0];
                    let dy = nx as f64 * a[1] + my as f64 * b[1];
                    let sj = st.shape.transform(&with_translation(&pos[j], dx, dy));
                    sum += 0.5 * si.energy(&sj);
                }
            }
        }
    }
    let oracle = -sum / n as f64;
    println!(
        "{}",
        json!({"score": match real { Some(x) => fl(x), None => Value::Null }, "oracle": fl(oracle), "shells": k, "copies": n})
    );
    0
}

// ---------------------------------------------------------------------------------- overlap

fn poly_vertices(shape: &LineShape, m: &[f64; 9]) -> Vec<[f64; 2]> {
    shape
        .items
        .iter()
        .map(|l| {
            let (x, y) = (l.start.x, l.start.y);
            [m[0] * x + m[1] * y + m[2], m[3] * x + m[4] * y + m[5]]
        })
        .collect()
}

/// penetration depth of two convex polygons (separating axis theorem); <= 0 means separated
fn sat_depth(p: &[[f64; 2]], q: &[[f64; 2]]) -> f64 {
    let mut depth = f64::INFINITY;
    for poly in [p, q].iter() {
        let n = poly.len();
        for i in 0..n {
            let a = poly[i];
            let b = poly[(i + 1) % n];
            let (ex, ey) = (b[0] - a[0], b[1] - a[1]);
            let len = (ex * ex + ey * ey).sqrt();
            if len == 0. {
                continue;
            }
            let (nx, ny) = (ey / len, -ex / len);
            let proj = |pts: &[[f64; 2]]| {
                let mut lo = f64::INFINITY;
                let mut hi = f64::NEG_INFINITY;
                for v in pts {
                    let d = v[0] * nx + v[1] * ny;
                    lo = lo.min(d);
                    hi = hi.max(d);
                }
                (lo, hi)
            };
            let (l1, h1) = proj(p);
            let (l2, h2) = proj(q);
            let o = h1.min(h2) - l1.max(l2);
            depth = depth.min(o);
        }
    }
    depth
}

fn overlap(args: &[String]) -> i32 {
    let kind = args.get(0).map(|s| s.as_str()).unwrap_or("mol");
    let txt = stdin_all();
    let v: Value = serde_json::from_str(&txt).unwrap();
    let (a, b) = lattice(&v["cell"]);
    let tol = 1e-9;
    let mut worst = f64::NEG_INFINITY;
    let mut witness = json!(null);
    let score;
    let rad;
    let n;
    macro_rules! common {
        ($st:expr) => {{
            score = $st.score();
            rad = $st.shape.enclosing_radius();
            $st.cartesian_positions().map(|t| mat(&t)).collect::<Vec<_>>()
        }};
    }
    // window: every image closer than 2R has |m| <= 2R/height_b + 1 and |n| <= (2R + |m| |b_x|)/a + 1
    let window = |rad: f64| -> (i64, i64) {
        let hb = b[1].abs().max(1e-12);
        let mmax = (2. * rad / hb).ceil() as i64 + 2;
        let nmax = ((2. * rad + mmax as f64 * b[0].abs()) / a[0].abs().max(1e-12)).ceil() as i64 + 2;
        (nmax.min(4000), mmax.min(4000))
    };
    if kind == "line" {
        let st: PackedState<LineShape> = serde_json::from_str(&txt).unwrap();
        let pos = common!(st);
        n = pos.len();
        let (nmax, mmax) = window(rad);
        for i in 0..n {
            let pi = poly_vertices(&st.shape, &pos[i]);
            for j in 0..n {
                for nx in -nmax..=nmax {
                    for my in -mmax..=mmax {
                        if (j < i) || (i == j && (nx < 0 || (nx == 0 && my <= 0))) {
                            continue;
                        }
                        let dx = nx as f64 * a[0] + my as f64 * b[0];
                        let dy = nx as f64 * a[1] + my as f64 * b[1];
                        let cx = pos[j][2] + dx - pos[i][2];
                        let cy = pos[j][5] + dy - pos[i][5];
                        if cx * cx + cy * cy > (2. * rad + 1e-6) * (2. * rad + 1e-6) {
                            continue;
                        }
                        let mut mj = pos[j];
                        mj[2] += dx;
                        mj[5] += dy;
                        let pj = poly_vertices(&st.shape, &mj);
                        let d = sat_depth(&pi, &pj);
                        if d > worst {
                            worst = d;
                            witness = json!({"i": i, "j": j, "n": nx, "m": my, "depth": d});
                        }
                    }
                }
            }
        }
    } else {
        let st: PackedState<MolecularShape2> = serde_json::from_str(&txt).unwrap();
        let pos = common!(st);
        n = pos.len();
        let (nmax, mmax) = window(rad);
        let discs = |m: &[f64; 9]| -> Vec<[f64; 3]> {
            st.shape
                .items
                .iter()
                .map(|a| [m[0] * a.position.x + m[1] * a.position.y + m[2], m[3] * a.position.x + m[4] * a.position.y + m[5], a.radius])
                .collect()
        };
        for i in 0..n {
            let di = discs(&pos[i]);
            for j in 0..n {
                for nx in -nmax..=nmax {
                    for my in -mmax..=mmax {
                        if (j < i) || (i == j && (nx < 0 || (nx == 0 && my <= 0))) {
                            continue;
                        }
                        let dx = nx as f64 * a[0] + my as f64 * b[0];
                        let dy = nx as f64 * a[1] + my as f64 * b[1];
                        let mut mj = pos[j];
                        mj[2] += dx;
                        mj[5] += dy;
                        let dj = discs(&mj);
                        for p in &di {
                            for q in &dj {
                                let d = p[2] + q[2] - ((p[0] - q[0]).powi(2) + (p[1] - q[1]).powi(2)).sqrt();
                                if d > worst {
                                    worst = d;
                                    witness = json!({"i": i, "j": j, "n": nx, "m": my, "depth": d});
                                }
                            }
                        }
                    }
                }
            }
        }
    }
    println!(
        "{}",
        json!({"score": match score { Some(x) => fl(x), None => Value::Null }, "copies": n, "max_overlap": fl(worst),
               "overlaps": worst > tol, "witness": witness})
    );
    0
}

// ---------------------------------------------------------------------------------- disc union area

fn union_area(discs: &[[f64; 3]]) -> f64 {
    let n = discs.len();
    let mut area = 0.;
    for i in 0..n {
        let [cx, cy, r] = discs[i];
        if r <= 0. {
            continue;
        }
        // a disc contained in another one contributes nothing; identical discs: keep the first
        let mut contained = false;
        for j in 0..n {
            if i == j {
                continue;
            }
            let d = ((cx - discs[j][0]).powi(2) + (cy - discs[j][1]).powi(2)).sqrt();
            if d + r <= discs[j][2] && !(d == 0. && r == discs[j][2] && j > i) {
                contained = true;
            }
        }
        if contained {
            continue;
        }
        let mut cuts: Vec<f64> = vec![];
        for j in 0..n {
            if i == j {
                continue;
            }
            let (dx, dy) = (discs[j][0] - cx, discs[j][1] - cy);
            let d = (dx * dx + dy * dy).sqrt();
            let rj = discs[j][2];
            if d >= r + rj || d <= (r - rj).abs() || d == 0. {
                continue;
            }
            let a = ((r * r - rj * rj + d * d) / (2. * d * r)).max(-1.).min(1.).acos();
            let base = dy.atan2(dx);
            cuts.push(base - a);
            cuts.push(base + a);
        }
        let two_pi = 2. * std::f64::consts::PI;
        let mut angs: Vec<f64> = cuts.iter().map(|t| t.rem_euclid(two_pi)).collect();
        angs.sort_by(|a, b| a.partial_cmp(b).unwrap());
        if angs.is_empty() {
            area += std::f64::consts::PI * r * r;
            continue;
        }
        let m = angs.len();
        for k in 0..m {
            let t1 = angs[k];
            let mut t2 = angs[(k + 1) % m];
            if k + 1 == m {
                t2 += two_pi;
            }
            if t2 - t1 <= 0. {
                continue;
            }
            let mid = 0.5 * (t1 + t2);
            let (px, py) = (cx + r * mid.cos(), cy + r * mid.sin());
            let mut inside = false;
            for j in 0..n {
                if i != j && (px - discs[j][0]).powi(2) + (py - discs[j][1]).powi(2) < discs[j][2].powi(2) {
                    inside = true;
                }
            }
            if !inside {
                area += 0.5 * (r * r * (t2 - t1) + cx * r * (t2.sin() - t1.sin()) - cy * r * (t2.cos() - t1.cos()));
            }
        }
    }
    area
}

fn area(_args: &[String]) -> i32 {
    let txt = stdin_all();
    let shape: MolecularShape2 = serde_json::from_str(&txt).unwrap();
    let discs: Vec<[f64; 3]> = shape.items.iter().map(|a| [a.position.x, a.position.y, a.radius]).collect();
    println!("{}", json!({"area": fl(shape.area()), "oracle": fl(union_area(&discs)), "discs": discs}));
    0
}

pub fn main(args: &[String]) -> i32 {
    match args.get(0).map(|s| s.as_str()) {
        Some("lj") => lj(&args[1..]),
        Some("overlap") => overlap(&args[1..]),
        Some("area") => area(&args[1..]),
        _ => 2,
    }
}
