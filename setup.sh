#!/bin/bash
# Build the framework offline: native replay binary (dev+release), warm the Kani target dirs.
set -e
cd "$(dirname "$0")"
export CARGO_NET_OFFLINE=true
export RUSTFLAGS="--cfg packing_verif"
cp /repo/Cargo.lock replay/Cargo.lock
(cd replay && CARGO_TARGET_DIR=/verif/target/replay cargo build --offline 2>&1 | tail -2)
(cd replay && CARGO_TARGET_DIR=/verif/target/replay cargo build --offline --release 2>&1 | tail -2)
echo setup done
