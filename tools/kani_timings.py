import sys, json, os
sys.path.insert(0, os.path.join(os.path.dirname(os.path.abspath(__file__)), "..", "vlib"))
import kani, harness_gen
H = harness_gen.write(0)
jobs = [dict(harness="h_gen::" + n, timeout=1200, mem_gb=16) for n in H]
rs = kani.run_many(jobs, nslots=6)
for n, r in zip(H, rs):
    print(json.dumps(dict(h=n, status=r["status"], wall=r["wall_s"], solver=r["solver_s"], fails=[f["desc"][:60] for f in r["relevant"]], covers=[c["status"] for c in r["covers"]])))
