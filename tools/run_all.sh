#!/bin/bash
# run every registered check (quick by default) sequentially; outputs under target/runs/all_<id>.out
cd /verif; TIER=${1:-quick}
for id in $(python3 -c "import json;print(' '.join(c['property_id'] for c in json.load(open('MANIFEST.json'))['checks']))"); do
  s=$(date +%s); ./check $id --tier $TIER > target/runs/all_$id.out 2>&1; rc=$?; e=$(date +%s)
  echo "$id rc=$rc $((e-s))s $(grep -E "^$id " target/runs/all_$id.out | tail -1)"
done
