#!/bin/bash
# run every stored seed against its property's check (isolated copies), print a table
cd /verif
for d in seeded/*/; do
  id=$(basename $d); prop=$(python3 -c "import json;print(json.load(open('$d/meta.json'))['breaks_property'])")
  wt=$(tools/seed_wt.sh $id | tail -1)
  out=$(tools/seed_run.sh $id $wt "$prop" ${1:-quick} 2>&1 | grep -E "exit=" | tail -1)
  echo "$id $prop $out"
  git -C /repo worktree remove --force $wt 2>/dev/null; rm -rf /tmp/vs_$id
done
