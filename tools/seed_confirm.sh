#!/bin/bash
# usage: seed_confirm.sh <seed-id> <worktree> <property> ["check ids to run"]
# Confirms a seeded defect in its scratch worktree (suite passes with it, demo fails with it and
# passes without it), stores it under /verif/seeded/<id>/, then runs the checks against /repo with
# the patch applied and restores /repo.
set -u
ID=$1; WT=$2; PROP=$3; CHECKS=${4:-$PROP}
OUT=/verif/seeded/$ID; mkdir -p $OUT
cd $WT || exit 1
export CARGO_TARGET_DIR=$WT/target CARGO_NET_OFFLINE=true
git diff -- src > $OUT/patch.diff
[ -s $OUT/patch.diff ] || { echo "empty patch"; exit 1; }
cp tests/demo_seeded.rs $OUT/demo_seeded.rs
[ -f NOTES.md ] && cp NOTES.md $OUT/NOTES.md
echo "== with patch: existing suite"
mv tests/demo_seeded.rs /tmp/demo_$ID.rs
cargo test --offline --lib --tests 2>&1 | grep -E "^test result|FAILED" | tee $OUT/suite_with_patch.txt
SUITE_OK=$(grep -c "FAILED" $OUT/suite_with_patch.txt)
cp /tmp/demo_$ID.rs tests/demo_seeded.rs
echo "== with patch: demo"
cargo test --offline --test demo_seeded 2>&1 | grep -E "^test result|^test .* (ok|FAILED)" | tee $OUT/demo_with_patch.txt
git apply -R $OUT/patch.diff
echo "== without patch: demo"
cargo test --offline --test demo_seeded 2>&1 | grep -E "^test result|^test .* (ok|FAILED)" | tee $OUT/demo_without_patch.txt
git apply $OUT/patch.diff
DEMO_FAILS_WITH=$(grep -c "FAILED" $OUT/demo_with_patch.txt)
DEMO_FAILS_WITHOUT=$(grep -c "FAILED" $OUT/demo_without_patch.txt)
echo "suite failures with patch: $SUITE_OK ; demo failures with patch: $DEMO_FAILS_WITH ; without: $DEMO_FAILS_WITHOUT"
if [ "$SUITE_OK" != "0" ] || [ "$DEMO_FAILS_WITH" = "0" ] || [ "$DEMO_FAILS_WITHOUT" != "0" ]; then echo "NOT CONFIRMED"; echo not_confirmed > $OUT/status; exit 2; fi
echo confirmed > $OUT/status
exit 0
cd /repo && git apply $OUT/patch.diff || { echo "patch does not apply to /repo"; exit 3; }
cd /verif
for c in $CHECKS; do
  ./check $c --tier quick > $OUT/check_$c.txt 2>&1; echo "check $c exit=$?" | tee -a $OUT/check_$c.txt
  grep -E "VIOLATION|KNOWN-FINDING|obligations" $OUT/check_$c.txt | head -5
done
git -C /repo checkout -- .
git -C /repo status --short | head -3
