#!/bin/bash
# usage: seed_run.sh <seed-id> <worktree> "<check ids>" [tier]
# Runs the checks against a seeded worktree from an isolated copy of /verif (so /repo and the
# real /verif/target are untouched and several seeds can be tried in parallel).
ID=$1; WT=$2; CHECKS=$3; TIER=${4:-quick}
VS=/tmp/vs_$ID
rm -rf $VS; mkdir -p $VS
rsync -a --exclude target --exclude .git --exclude evidence --exclude replays --exclude seeded /verif/ $VS/
sed -i "s#path = \"/repo\"#path = \"$WT\"#" $VS/kani/Cargo.toml $VS/replay/Cargo.toml
export VERIF_REPO=$WT
cd $VS
for c in $CHECKS; do
  ./check $c --tier $TIER > $VS/check_$c.txt 2>&1; echo "check $c exit=$?" >> $VS/check_$c.txt
  mkdir -p /verif/seeded/$ID; cp $VS/check_$c.txt /verif/seeded/$ID/check_$c.txt
  grep -E "VIOLATION|KNOWN-FINDING|obligations|exit=" $VS/check_$c.txt | cut -c1-300
done
