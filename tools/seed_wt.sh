#!/bin/bash
# usage: seed_wt.sh <seed-id>  -> (re)creates /tmp/mut_<seed-id> from /repo HEAD with the seeded patch applied
ID=$1; WT=/tmp/mut_$ID
git -C /repo worktree remove --force $WT 2>/dev/null; rm -rf $WT
git -C /repo worktree add -q $WT HEAD && cd $WT && git apply /verif/seeded/$ID/patch.diff && echo $WT
