"""Result bookkeeping, evidence files, known findings, exit codes."""
import os, json, time, sys, hashlib

VERIF = os.path.dirname(os.path.dirname(os.path.abspath(__file__)))
EVID = os.path.join(VERIF, "evidence")
REPLAYS = os.path.join(VERIF, "replays")
KNOWN = os.path.join(VERIF, "known_findings.json")


class Result:
    def __init__(self, prop, tier, seed):
        self.prop, self.tier, self.seed = prop, tier, seed
        self.t0 = time.time()
        self.obligations = []     # dict(name, engine, status, detail, solver_s, sample)
        self.violations = []      # dict(what, replay, role)
        self.known = []           # dict(what, role)
        self.inconclusive = []    # candidates that did not reproduce / encoder problems
        self.functions = []
        self.bounds = []
        self.stubs = []
        self.assumptions = []
        self.samples = []
        self.notes = []
        self.solver_s = {}
        self.extra = {}

    def ob(self, name, engine, status, detail="", solver_s=0.0, sample=None, nontrivial=True):
        """status: discharged | violated | known | undischarged | vacuous"""
        self.obligations.append(dict(name=name, engine=engine, status=status, detail=detail,
                                     solver_s=round(solver_s, 3), nontrivial=nontrivial))
        self.solver_s[engine] = self.solver_s.get(engine, 0.0) + solver_s
        if sample is not None and len(self.samples) < 12:
            self.samples.append(sample)

    def violation(self, what, replay_obj, role):
        """A reproduced violation.  Suppressed (KNOWN-FINDING) only when a known, unfixed finding
        with the same role is listed."""
        kf = match_known(self.prop, role)
        if kf is not None:
            self.known.append(dict(what=what, role=role, entry=kf.get("id")))
            return "known"
        os.makedirs(REPLAYS, exist_ok=True)
        h = hashlib.sha1(json.dumps(replay_obj, sort_keys=True, default=str).encode()).hexdigest()[:10]
        path = os.path.join(REPLAYS, "%s-%s.json" % (self.prop, h))
        json.dump(dict(property=self.prop, what=what, role=role, replay=replay_obj), open(path, "w"), indent=1, default=str)
        self.violations.append(dict(what=what, replay=path, role=role))
        return "violated"

    def finish(self):
        wall = time.time() - self.t0
        n = len(self.obligations)
        disch = sum(1 for o in self.obligations if o["status"] == "discharged")
        undis = [o for o in self.obligations if o["status"] in ("undischarged", "vacuous")]
        nontriv = len({o["name"] for o in self.obligations if o["status"] in ("discharged", "known", "violated") and o["nontrivial"]})
        cov = dict(
            evaluations=max(1, n),
            distinct_nontrivial=nontriv,
            rule="one evaluation = one solver query / bounded model-checking run over the real code (an obligation); "
                 "non-trivial = decided (unsat / proof, or a replayed counterexample) AND its reachability/"
                 "satisfiability witness held, counted by distinct obligation name",
            samples=self.samples or [o for o in self.obligations[:3]],
            obligations=n,
            discharged=disch,
            undischarged=[dict(name=o["name"], status=o["status"], detail=o["detail"][:300]) for o in undis],
            violated=[o["name"] for o in self.obligations if o["status"] == "violated"],
            known_findings=[k["what"] for k in self.known],
            inconclusive_candidates=self.inconclusive,
            functions_encoded=self.functions,
            bounds=self.bounds,
            stubs_and_summaries=self.stubs,
            solver_time_s={k: round(v, 2) for k, v in self.solver_s.items()},
            obligations_detail=self.obligations[:200],
            exhaustive=False,
            notes=self.notes,
        )
        cov.update(self.extra)
        ev = dict(property_id=self.prop, tier=self.tier, seed=self.seed, level="model_checking", coverage=cov,
                  assumptions=self.assumptions, wall_s=round(wall, 2), violations=len(self.violations))
        os.makedirs(EVID, exist_ok=True)
        json.dump(ev, open(os.path.join(EVID, self.prop + ".json"), "w"), indent=1, default=str)
        for k in self.known:
            print("KNOWN-FINDING: property=%s %s" % (self.prop, k["what"]))
        for v in self.violations:
            print("VIOLATION property=%s replay=%s" % (self.prop, v["replay"]))
            print("  " + v["what"])
        print("%s %s: %d obligations, %d discharged, %d undischarged, %d violations, %d known findings, %.0fs" % (
            self.prop, self.tier, n, disch, len(undis), len(self.violations), len(self.known), wall))
        for o in undis:
            print("  undischarged: %s (%s) %s" % (o["name"], o["status"], o["detail"][:160]))
        for c in self.inconclusive:
            print("  inconclusive candidate: %s" % (str(c)[:300]))
        if self.violations:
            return 1
        if self.inconclusive and not disch and not self.known:
            return 2
        return 0


def load_known():
    if not os.path.exists(KNOWN):
        return []
    return json.load(open(KNOWN)).get("findings", [])


def match_known(prop, role):
    """role: dict of structural facts about the violation. An entry matches when it is for the same
    property, has status 'known' (not 'fixed'), and every key of its 'role' equals the violation's."""
    for e in load_known():
        if e.get("property") != prop or e.get("status") != "known":
            continue
        r = e.get("role", {})
        if all(role.get(k) == v for k, v in r.items()):
            return e
    return None
