import sys, os, argparse
sys.path.insert(0, os.path.dirname(os.path.abspath(__file__)))
sys.path.insert(0, os.path.join(os.path.dirname(os.path.dirname(os.path.abspath(__file__))), "mirsym"))


def main():
    ap = argparse.ArgumentParser()
    ap.add_argument("prop")
    ap.add_argument("--tier", default=os.environ.get("VERIF_TIER", "quick"))
    ap.add_argument("--replay")
    ap.add_argument("--only", nargs="*")
    a = ap.parse_args()
    seed = int(os.environ.get("VERIF_SEED", "0") or 0)
    import ensure
    ensure.replay_built()
    if a.replay:
        import replaycmd
        sys.exit(replaycmd.run(a.prop, a.replay))
    K = {"C05", "C06", "C07", "C18", "C19", "C20"}
    if a.prop in K:
        import oprops
        res = oprops.run(a.prop, a.tier, seed, a.only)
    else:
        import mprops
        res = mprops.run(a.prop, a.tier, seed, a.only)
    sys.exit(res.finish())


if __name__ == "__main__":
    main()
