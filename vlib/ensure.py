"""(Re)build the native replay binary against /repo's current tree (cargo decides what is stale)."""
import os, subprocess, shutil
VERIF = os.path.dirname(os.path.dirname(os.path.abspath(__file__)))
_done = False


def replay_built():
    global _done
    if _done:
        return
    env = dict(os.environ, CARGO_NET_OFFLINE="true", RUSTFLAGS="--cfg packing_verif",
               CARGO_TARGET_DIR=os.path.join(VERIF, "target", "replay"))
    env.pop("RUSTUP_TOOLCHAIN", None)
    shutil.copy(os.path.join(os.environ.get("VERIF_REPO", "/repo"), "Cargo.lock"), os.path.join(VERIF, "replay", "Cargo.lock"))
    for prof in ([], ["--release"]):
        p = subprocess.run(["cargo", "build", "--offline"] + prof, cwd=os.path.join(VERIF, "replay"), env=env,
                           stdout=subprocess.PIPE, stderr=subprocess.STDOUT, text=True)
        if p.returncode != 0:
            raise SystemExit("replay build failed:\n" + p.stdout[-3000:])
    _done = True
