import json, os
V = os.path.dirname(os.path.dirname(os.path.abspath(__file__)))
K_NOTE = ("Trusted: Kani 0.68/CBMC 6.11 semantics of the compiled crate; the stubs for f64::exp/powf (over-approximations exact on the special cases, listed in the evidence); "
          "rand/rand_pcg as compiled; the scripted-State monitor (kani/src/monitor.rs) as the statement of the property. Bounds: the listed (steps, inner_steps) pairs, 2-3 parameters, "
          "concrete seeds, float inputs on small tables of exact values. Counterexamples are replayed against the native dev and release builds before being reported.")
M_NOTE = ("Trusted: the MIR->SMT executor (mirsym) and its closed list of summaries for nalgebra/std/itertools/rand (printed in the evidence, validated each run against the real functions on concrete vectors); "
          "z3 4.8.12. R-mode obligations are about the exact-real semantics of the MIR expressions (rounding outside the claim); sat models are rounded to doubles and replayed against the real build before being reported.")
CHECKS = {
 "C05": ("mirsym+kani", "symbolic execution of optimise_state's MIR per accept/reject history + z3 (all settings symbolic, kt_start = 0), and Kani/CBMC on the compiled code; scripted State + specification monitor", "5 C05", K_NOTE),
 "C06": ("mirsym+kani", "symbolic execution of optimise_state's MIR per accept/reject history + z3, and Kani/CBMC on the compiled code (scripted State + specification monitor): bit-exact held-vector monitor over symbolic accept/reject histories", "5 C06", K_NOTE),
 "C07": ("mirsym+kani", "symbolic execution of optimise_state's MIR per accept/reject history + z3, and Kani/CBMC on the compiled code (scripted State + specification monitor): decisions vs the Metropolis rule with the same draw and the same uninterpreted exp", "5 C07", K_NOTE),
 "C18": ("mirsym+kani", "symbolic execution of optimise_state's MIR per accept/reject history + z3, and Kani/CBMC on the compiled code (scripted State + specification monitor): per-loop temperature of the specification vs the code's, through the acceptance decisions and the exp/powf arguments", "5 C18", K_NOTE),
 "C19": ("mirsym+kani", "symbolic execution of optimise_state's MIR per accept/reject history + z3, and Kani/CBMC on the compiled code (scripted State + specification monitor): every proposal's move size vs max_step_size*range/2 over multi-loop histories, symbolic draws", "5 C19", K_NOTE),
 "C20": ("mirsym+kani", "symbolic execution of optimise_state's MIR per accept/reject history + z3, and Kani/CBMC on the compiled code (scripted State + specification monitor): panic freedom, proposal counts for (steps, inner_steps) edges, convergence rule", "5 C20", K_NOTE),
 "C12": ("mirsym", "symbolic execution of the MIR of Line2/Atom2/LineShape/MolecularShape2::{intersects, transform} + z3 (nlsat) against exact geometry: discs and segments for all reals, polygon lemma L(n), polygon pairs with symbolic offset on a rotation grid (separating-axis reference)", "5 C12", M_NOTE),
 "C13": ("mirsym", "symbolic execution of the MIR of LJ2::energy / lj2_ops::mul / LJShape2::energy + z3 against the shifted truncated 12-6 law", "5 C13", M_NOTE),
 "C01": ("mirsym", "symbolic execution of check_intersection's MIR (recording opaque shape; the symbolic shell count is followed by forking on its integer value) to obtain the tested pairs, region guards and prefilters without assuming the loop structure; per image offset an NRA query 'adjacent tests negative and this image truly overlaps' after a solver-checked change of variables to Cartesian lattice vectors; polygons by an orientation branch and bound (interval relaxation for unsat, pinned orientation for counterexamples); real-valued offsets beyond the window; z3 4.8 + z3 5.1 portfolio; native replay with an exhaustive lattice oracle", "4 C01", M_NOTE),
 "C17": ("mirsym", "symbolic execution of Transform2::from_operations' MIR over components of symbolic characters, compared by z3 with a reference transducer written from the grammar; panic sites unreachable", "4 C17", M_NOTE),
 "C02": ("mirsym", "symbolic execution of PackedState::score (shape opaque), LineShape::from_radial+area, MolecularShape2::area/from_trimer MIR + z3: score formula, polygon shoelace area, disc formulas, trimer validity query (known findings)", "5 C02", M_NOTE),
 "C08": ("mirsym", "MIR execution of get_degrees_of_freedom/get_basis/generate_basis/set_value/reset_value/from_wyckoff/from_family + z3: handles, ranges, one-step induction, initial validity; optimise_state histories keep proposals in range", "5 C08", M_NOTE),
 "C09": ("mirsym+kani", "sequential core only: Clone fidelity and seed dataflow from MIR + z3, Kani pointer-precise clone isolation harnesses; thread schedules NOT explored", "5 C09", M_NOTE + " " + K_NOTE),
 "C03": ("mirsym", "symbolic execution of PotentialState::score MIR with the shape's energy uninterpreted + z3: the sum equals the lattice energy per molecule with every pair once (weights, pair set, normalisation)", "5 C03", M_NOTE),
 "C14": ("mirsym", "symbolic execution of the MIR of Cell2::{to_cartesian*, area, periodic_images} with iterator models + z3: lattice identities for all cells, k <= 3", "5 C14", M_NOTE),
 "C15": ("mirsym", "symbolic execution of the MIR of OccupiedSite::positions / Transform2::periodic + z3 (reals) and QF_FP (bit-precise wrap range)", "5 C15", M_NOTE),
 "C16": ("mirsym", "group axioms and International-Tables comparison over the tables produced by the real parser (finite, exhaustive) + z3 metric-invariance queries over the family's symbolic cells", "5 C16", M_NOTE),
 "C04": ("mirsym", "symbolic execution of positions/to_cartesian_isometry MIR per group + z3: every operation maps the placed copies onto copies (linear part, position mod lattice)", "5 C04", M_NOTE),
 "C10": ("mirsym", "MIR execution of get_wallpaper_group per CLI group name (labels, family, copy count) + z3 on PartialOrd-by-score; CLI process boundary not executed", "5 C10", M_NOTE),
}
NA = {
 "C11": "JSON/SVG fidelity rests on serde_json/ryu float printing+parsing and float Display inside format!: third-party digit loops over a symbolic double, not in this crate's MIR and out of reach for CBMC here (one symbolic character of the crate's own parser already exceeds 10 min); the encodable fragments do not decide the property.",
}


def main():
    props = [json.loads(l) for l in open(os.path.join(V, "properties.jsonl"))]
    checks = []
    for p in props:
        pid = p["id"]
        if pid not in CHECKS:
            continue
        eng, tech, ref, note = CHECKS[pid]
        checks.append(dict(property_id=pid, quick_cmd="./check %s --tier quick" % pid, thorough_cmd="./check %s --tier thorough" % pid,
                           evidence_file="/verif/evidence/%s.json" % pid, replay_cmd_template="./check %s --replay {path}" % pid, engine=eng,
                           level_claimed=dict(category="model_checking", text="Solver verdict over all inputs within the stated bounds on the real code (compiled crate or its MIR); not a proof beyond the bounds. " + tech, design_ref="DESIGN.md section " + ref),
                           level_note=note, technique=tech))
    na = [dict(property_id=p["id"], reason=NA.get(p["id"], "check not built yet (work in progress)")) for p in props if p["id"] not in CHECKS]
    m = dict(version=1, setup_cmd="./setup.sh",
             hooks=dict(guard="packing_verif", enable="RUSTFLAGS='--cfg packing_verif' (set by ./check when building the Kani harness crate and the replay binary)",
                        baseline_off_cmd="cd /repo && cargo test --workspace --no-fail-fast --offline", source_commits=["823c5b8"], add_only=True),
             engines=[dict(name="kani", path="/verif/kani", serves_properties=[k for k, v in CHECKS.items() if v[0] == "kani"], kind_free_text="Kani/CBMC harness crate over the compiled crate, scripted State + monitor"),
                      dict(name="mirsym", path="/verif/mirsym", serves_properties=[k for k, v in CHECKS.items() if v[0] == "mirsym"], kind_free_text="MIR -> SMT-LIB symbolic executor (Python) + z3/cvc5"),
                      dict(name="replay", path="/verif/replay", serves_properties=list(CHECKS), kind_free_text="native replay/oracle binary on the real library (dev+release)")],
             checks=checks, not_applicable=na,
             notes="Every check regenerates its encoding from /repo's working tree (MIR dump / Kani build). Exit 0 = nothing refuted (undischarged obligations are listed in the evidence), exit 1 = reproduced violation, KNOWN-FINDING lines for entries of known_findings.json.")
    json.dump(m, open(os.path.join(V, "MANIFEST.json"), "w"), indent=1)
    print(len(checks), "checks,", len(na), "not applicable")


main()
