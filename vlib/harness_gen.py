"""Single source of truth for the optimiser harnesses: generates kani/src/h_gen.rs and gives the
Python side each harness's shape (needed to decode counterexamples)."""
import os

VERIF = os.path.dirname(os.path.dirname(os.path.abspath(__file__)))

# assertion sets per property
ASSERTS = {
    "C05": ["!m.flags.bad_held", "!m.flags.multi_param"],
    "C06": ["!m.flags.bad_held", "!m.flags.multi_param"],
    "C07": ["!m.flags.bad_held", "!m.flags.bad_exp_arg", "!m.flags.exp_twice"],
    "C08": ["!m.flags.out_of_range"],
    "C18": ["!m.flags.bad_exp_arg", "!m.flags.bad_powf"],
    "C19": ["!m.flags.big_move", "!m.flags.multi_param"],
    "C20": ["!m.flags.bad_count"],
}
# assumptions placed after the run and before the assertions (restrict which runs are judged)
ASSUMES = {
    "C05": [],                      # kt_start = 0 by shape
    "C06": ["!m.saw_worse"],        # forced decisions only: invalid => reject, better/equal => accept
    "C07": [],                      # S-variant: exp stub forces the outcome in the probabilistic region
    "C07D": ["!m.flags.prob"],      # D-variant: only temperature-independent decisions (replayable)
    "C08": ["!m.flags.prob"],
    "C18": [],
    "C19": ["!m.flags.prob"],
    "C20": ["!m.flags.prob"],
}
COVERS = {
    "C05": "m.accepted >= 1 && m.rejected >= 1 && m.saw_worse",
    "C06": "m.accepted >= 2 && m.rejected >= 2",
    "C07": "m.accepted >= 1 && m.rejected >= 1 && m.flags.prob",
    "C07D": "m.accepted >= 1 && m.rejected >= 1 && m.saw_worse",
    "C08": "m.accepted >= 1 && m.rejected >= 1",
    "C18": "m.exp_n >= 2 && m.loops_done >= 2",
    "C19": "m.accepted >= 1 && m.loops_done >= 2",
    "C20": "m.loops_done >= 1 || m.cfg.steps == 0 || m.cfg.inner == 0",
}


def shape(np=2, seed=1, steps=4, inner=2, sym_range=False, kt_start=None, conv=None, finish=None, ratio=None):
    """conv/finish/ratio: None = absent, "sym" = symbolic presence+value, float = fixed Some(x).
    kt_start: None = symbolic table index, float = fixed."""
    return dict(np=np, seed=seed, steps=steps, inner=inner, sym_range=sym_range, kt_start=kt_start,
                conv=conv, finish=finish, ratio=ratio)


def harnesses(seed_mix=0):
    """-> dict name -> dict(prop, variant, shape, tier, unwind)"""
    H = {}
    s1, s2 = 1 + seed_mix, 2 + seed_mix

    def add(name, prop, sh, tier, variant=None, unwind=None):
        u = unwind or max(sh["steps"] + 3, 8)
        H[name] = dict(prop=prop, variant=variant or prop, shape=sh, tier=tier, unwind=u)
    # C05: zero start temperature, every other setting symbolic
    add("c05_s4i2", "C05", shape(steps=4, inner=2, kt_start=0., finish="sym", ratio="sym", conv="sym", seed=s1), "quick")
    add("c05_s6i2", "C05", shape(steps=6, inner=2, kt_start=0., finish="sym", ratio="sym", seed=s2), "thorough")
    add("c05_s3i1", "C05", shape(steps=3, inner=1, kt_start=0., finish="sym", ratio="sym", conv="sym", seed=s1, np=3), "quick")
    add("c05_s6i3r", "C05", shape(steps=6, inner=3, kt_start=0., finish="sym", ratio="sym", sym_range=True, seed=s2), "thorough")
    add("c05_s8i2", "C05", shape(steps=8, inner=2, kt_start=0., finish="sym", ratio="sym", seed=s1), "thorough")
    # C06: forced decisions (invalid / better / equal) under zero and positive temperatures
    add("c06_s4i2", "C06", shape(steps=4, inner=2, kt_start=0.5, ratio=0.5, seed=s1), "quick")
    add("c06_s5i5r", "C06", shape(steps=5, inner=5, kt_start=0.5, sym_range=True, seed=s2, np=3), "quick")
    add("c06_s6i3k0", "C06", shape(steps=6, inner=3, kt_start=0., seed=s2), "quick")
    add("c06_s8i4", "C06", shape(steps=8, inner=4, kt_start=0., sym_range=True, seed=s1, np=3), "thorough")
    add("c06_s6i2kt", "C06", shape(steps=6, inner=2, kt_start=1., finish=0.015625, seed=s2), "thorough")
    # C07: D = temperature-independent decisions only (replayable); S = exp stub forces outcomes
    add("c07d_s4i2", "C07", shape(steps=4, inner=2, kt_start=1., ratio=0.5, seed=s1), "quick", variant="C07D")
    add("c07d_s4i2z", "C07", shape(steps=4, inner=2, kt_start=0., ratio="sym", finish="sym", seed=s2), "thorough", variant="C07D")
    add("c07s_s4i4", "C07", shape(steps=4, inner=4, kt_start=0.5, seed=s2), "quick", variant="C07")
    add("c07s_s4i2", "C07", shape(steps=4, inner=2, kt_start=1., ratio=0.5, seed=s1), "quick", variant="C07")
    add("c07d_s6i3", "C07", shape(steps=6, inner=3, kt_start=8., ratio=0.25, seed=s2), "thorough", variant="C07D")
    add("c07s_s6i2", "C07", shape(steps=6, inner=2, kt_start=0.0625, finish=0.5, seed=s1), "thorough", variant="C07")
    add("c07s_s4i2sym", "C07", shape(steps=4, inner=2, ratio="sym", seed=s1), "thorough", variant="C07")
    # C08 (optimiser side: proposals stay inside [lo,hi])
    add("c08_s4i2r", "C08", shape(steps=4, inner=2, kt_start=0., sym_range=True, seed=s1, np=3), "quick")
    add("c08_s6i3r", "C08", shape(steps=6, inner=3, kt_start=0., sym_range=True, seed=s2), "thorough")
    # C18: temperature per loop observed through the arguments handed to exp / powf
    add("c18_s4i2r", "C18", shape(steps=4, inner=2, kt_start=1., ratio=0.5, seed=s1), "quick")
    add("c18_s6i2f", "C18", shape(steps=6, inner=2, kt_start=0.5, finish=0.015625, seed=s2), "thorough")
    add("c18_s3i1n", "C18", shape(steps=3, inner=1, kt_start=8., seed=s1), "thorough")
    add("c18_s4i2z", "C18", shape(steps=4, inner=2, kt_start=0., ratio="sym", finish="sym", seed=s2), "quick")
    add("c18_s8i2f", "C18", shape(steps=8, inner=2, kt_start=1., finish=0.5, seed=s2), "thorough")
    add("c18_s6i3r", "C18", shape(steps=6, inner=3, kt_start=0.0625, ratio=0.25, seed=s1), "thorough")
    add("c18_s4i2sym", "C18", shape(steps=4, inner=2, ratio="sym", finish="sym", seed=s1), "thorough")
    # C19
    add("c19_s4i2", "C19", shape(steps=4, inner=2, kt_start=0., seed=s1), "quick")
    add("c19_s6i2r", "C19", shape(steps=6, inner=2, kt_start=0., sym_range=True, seed=s2), "thorough")
    add("c19_s3i1", "C19", shape(steps=3, inner=1, kt_start=0.5, ratio=0.5, seed=s1, np=3), "quick")
    add("c19_s8i2", "C19", shape(steps=8, inner=2, kt_start=0., seed=s2), "thorough")
    add("c19_s9i3", "C19", shape(steps=9, inner=3, kt_start=0., sym_range=True, seed=s1), "thorough")
    # C20: step-count edges (all concrete pairs), convergence
    for (st, inn) in [(0, 1), (1, 0), (0, 0), (3, 2), (2, 5), (5, 2), (1, 1)]:
        add("c20_s%di%d" % (st, inn), "C20", shape(steps=st, inner=inn, kt_start=0., finish="sym", ratio="sym", conv="sym", seed=s1), "quick")
    add("c20_s7i1c", "C20", shape(steps=7, inner=1, kt_start=0., conv="sym", seed=s2), "quick", unwind=11)
    add("c20_s8i1c", "C20", shape(steps=8, inner=1, kt_start=0., conv="sym", seed=s1), "thorough", unwind=12)
    add("c20_s4i3", "C20", shape(steps=4, inner=3, kt_start=0.5, ratio=0.5, conv="sym", seed=s2), "thorough")
    add("c20_s7i2", "C20", shape(steps=7, inner=2, kt_start=0., conv="sym", seed=s2), "thorough")
    return H


def rs_f(x):
    return "None" if x is None else "Some(%r)" % float(x)


def rs_opt(x):
    if x is None:
        return "Opt::Absent"
    if x == "sym":
        return "Opt::Sym"
    return "Opt::Fixed(%r)" % float(x)


def gen_rs(seed_mix=0):
    H = harnesses(seed_mix)
    out = ["//! GENERATED by vlib/harness_gen.py -- do not edit.", "use crate::h_opt::*;", "use crate::monitor::*;", "use crate::stubs::*;", ""]
    for name, h in H.items():
        sh = h["shape"]
        v = h["variant"]
        out.append("#[kani::proof]")
        out.append("#[kani::unwind(%d)]" % h["unwind"])
        out.append("#[kani::stub(f64::exp, exp_stub)]")
        out.append("#[kani::stub(f64::powf, powf_stub)]")
        out.append("#[kani::stub(std::fmt::format, format_stub)]")
        out.append("fn %s() {" % name)
        out.append("    let inp = draw(Shape { np: %d, seed: %d, steps: %d, inner: %d, sym_range: %s, kt_start: %s, conv: %s, finish: %s, ratio: %s });" % (
            sh["np"], sh["seed"], sh["steps"], sh["inner"], str(sh["sym_range"]).lower(), rs_f(sh["kt_start"]),
            rs_opt(sh["conv"]), rs_opt(sh["finish"]), rs_opt(sh["ratio"])))
        out.append("    go(&inp);")
        out.append("    let m = mon();")
        out.append("    kani::assume(m.reliable && !m.flags.overflow);")
        for a in ASSUMES[v]:
            out.append("    kani::assume(%s);" % a)
        out.append("    kani::cover!(%s, \"witness\");" % COVERS[v])
        for a in ASSERTS[h["prop"]]:
            out.append("    assert!(%s);" % a)
        out.append("}")
        out.append("")
    return "\n".join(out)


def write(seed_mix=0):
    p = os.path.join(VERIF, "kani", "src", "h_gen.rs")
    new = gen_rs(seed_mix)
    if not os.path.exists(p) or open(p).read() != new:
        open(p, "w").write(new)
    return harnesses(seed_mix)


if __name__ == "__main__":
    print(len(write()), "harnesses")
