"""Run Kani harnesses from /verif/kani against /repo's working tree and parse CBMC's per-check
results.  Several harnesses run in parallel, each in its own cargo target dir ("slot")."""
import os, re, subprocess, time, json, shutil, threading, queue, hashlib

VERIF = os.path.dirname(os.path.dirname(os.path.abspath(__file__)))
KDIR = os.path.join(VERIF, "kani")
TARGET = os.path.join(VERIF, "target")
REPO = os.environ.get("VERIF_REPO", "/repo")

CHECK_RE = re.compile(
    r"Check (\d+): (\S+)\n\s*- Status: (\w+)\n\s*- Description: \"(.*?)\"\n\s*- Location: (.*?)\n", re.S)


def env():
    e = dict(os.environ)
    e["CARGO_NET_OFFLINE"] = "true"
    e["RUSTFLAGS"] = "--cfg packing_verif"
    e.pop("RUSTUP_TOOLCHAIN", None)
    return e


def prepare():
    """Copy /repo's lock file so the harness crate resolves to the same dependency versions."""
    src = os.path.join(REPO, "Cargo.lock")
    dst = os.path.join(KDIR, "Cargo.lock")
    # keep an already-extended lock file if the repo's has not changed
    stamp = os.path.join(TARGET, "lock.stamp")
    os.makedirs(TARGET, exist_ok=True)
    h = hashlib.sha256(open(src, "rb").read()).hexdigest()
    if not (os.path.exists(dst) and os.path.exists(stamp) and open(stamp).read() == h):
        shutil.copy(src, dst)
        open(stamp, "w").write(h)


def classify(desc, loc, name):
    """Which failed checks count.  Returns one of: 'harness' (assertion in a harness),
    'repo_panic' (a Rust panic located in /repo), 'unwind', 'ignore'."""
    if "unwinding assertion" in desc:
        return "unwind"
    # CBMC float checks are not Rust failures
    if desc.startswith("NaN on") or "arithmetic overflow on floating-point" in desc:
        return "ignore"
    if (REPO + "/src") in loc or "repo/src/" in loc or loc.startswith(REPO + "/") or re.search(r"(^|/)mut_\w+/src/", loc):
        return "repo_panic"
    if loc.startswith("src/") or "/verif/kani/src" in loc:
        return "harness"
    # failures inside std/deps (e.g. Option::expect called from /repo, slice index) are panics too
    return "dep_panic"


def run_one(harness, slot, timeout_s, unwind=None, extra=None, mem_gb=14, playback=False):
    tdir = os.path.join(TARGET, "kani-slot%d" % slot)
    log = os.path.join(TARGET, "logs")
    os.makedirs(log, exist_ok=True)
    logf = os.path.join(log, harness.replace("::", "__") + (".pb" if playback else "") + ".log")
    cmd = ["cargo", "kani", "-Z", "stubbing", "--target-dir", tdir, "--harness", harness, "--exact"]
    if unwind is not None:
        cmd += ["--default-unwind", str(unwind)]
    if playback:
        cmd += ["-Z", "concrete-playback", "--concrete-playback=print"]
    if extra:
        cmd += extra
    t0 = time.time()
    shell = "ulimit -v %d; exec timeout %d %s" % (mem_gb * 1024 * 1024, timeout_s, " ".join(cmd))
    with open(logf, "w") as f:
        p = subprocess.run(["bash", "-c", shell], cwd=KDIR, env=env(), stdout=f, stderr=subprocess.STDOUT)
    wall = time.time() - t0
    out = open(logf, errors="replace").read()
    res = parse(out)
    res.update(harness=harness, wall_s=round(wall, 2), rc=p.returncode, log=logf)
    if p.returncode == 124:
        res["status"] = "timeout"
    return res


def parse(out):
    checks = CHECK_RE.findall(out)
    fails = []
    n_checks = len(checks)
    for num, name, status, desc, loc in checks:
        if status == "FAILURE":
            fails.append(dict(name=name, desc=desc, loc=loc.strip(), kind=classify(desc, loc, name)))
    covers = re.findall(r"Check \d+: (\S*cover\S*)\n\s*- Status: (\w+)\n\s*- Description: \"(.*?)\"", out)
    cov = [dict(name=n, status=s, desc=d) for n, s, d in covers]
    m = re.search(r"VERIFICATION:- (\w+)", out)
    verdict = m.group(1) if m else None
    vt = re.search(r"Verification Time: ([\d.]+)s", out)
    status = "error"
    relevant = [f for f in fails if f["kind"] in ("harness", "repo_panic", "dep_panic")]
    unwind = [f for f in fails if f["kind"] == "unwind"]
    if verdict is None:
        status = "error"
    elif relevant:
        status = "failed"
    elif unwind:
        status = "unwind"
    elif verdict == "SUCCESSFUL" or (verdict == "FAILED" and fails and not relevant):
        status = "ok"
    else:
        status = "error" if verdict != "SUCCESSFUL" else "ok"
    # undetermined checks (after an unwinding failure) are not successes
    if "CBMC failed" in out or "Status: ERROR" in out or "out of memory" in out.lower():
        status = "error"
    pb = []
    for m in re.finditer(r"Concrete playback unit test for.*?```\s*(?:rust)?\n(.*?)```", out, re.S):
        body = m.group(1)
        mm = re.search(r"/// Check for `(\w+)`: \"(.*)\"", body)
        pb.append(dict(kind=mm.group(1) if mm else "?", desc=mm.group(2) if mm else "", bytes=decode_playback(body)))
    return dict(status=status, verdict=verdict, n_checks=n_checks, fails=fails, relevant=relevant,
                covers=cov, solver_s=float(vt.group(1)) if vt else None, playback=pb)


def decode_playback(pb):
    """Concrete playback prints `vec![ vec![b0, b1, ...], ... ]`, one byte vector per kani::any()
    (arrays element by element).  Returns the flattened byte stream."""
    if not pb:
        return None
    vals = []
    i = pb.index("vec![")
    for m in re.finditer(r"vec!\[([0-9,\s]*)\]", pb[i + 5:]):
        body = m.group(1).strip()
        if body == "":
            vals.append(b"")
        else:
            vals.append(bytes(int(x) for x in body.split(",") if x.strip() != ""))
    return list(b"".join(vals))


def run_many(jobs, nslots=8):
    """jobs: list of dict(harness=, timeout=, unwind=, extra=).  Returns results in order."""
    prepare()
    q = queue.Queue()
    for i, j in enumerate(jobs):
        q.put((i, j))
    results = [None] * len(jobs)

    def worker(slot):
        while True:
            try:
                i, j = q.get_nowait()
            except queue.Empty:
                return
            r = run_one(j["harness"], slot, j.get("timeout", 300), j.get("unwind"), j.get("extra"),
                        j.get("mem_gb", 14), j.get("playback", False))
            results[i] = r

    ts = [threading.Thread(target=worker, args=(s,)) for s in range(min(nslots, len(jobs)))]
    for t in ts:
        t.start()
    for t in ts:
        t.join()
    return results


if __name__ == "__main__":
    import sys
    hs = sys.argv[2:]
    to = int(sys.argv[1])
    rs = run_many([dict(harness=h, timeout=to) for h in hs])
    for r in rs:
        print(json.dumps({k: r[k] for k in ("harness", "status", "verdict", "wall_s", "solver_s", "n_checks")}))
        for f in r["fails"]:
            if f["kind"] != "ignore":
                print("   FAIL", f)
        for c in r["covers"]:
            print("   COVER", c)
