"""Properties decided by Kani over the real optimise_state with the scripted mock:
C05 C06 C07 C18 C19 C20 (+ the optimiser half of C08)."""
import os, re, json
import kani, harness_gen, optreplay
from core import Result

STUBS = [
    "f64::exp -> exact on NaN/0/±inf and where the true result is exactly 0 (x<-750) or 1 (-1e-17<x<0); otherwise outcome-forcing {0,1} by a symbolic bit (over-approximates exp on x<0)",
    "f64::powf -> exact on IEEE special cases; otherwise a symbolic non-negative value from a small table; arguments logged",
    "std::fmt::format -> empty string (panic/error messages)",
]
BOUNDS_COMMON = [
    "optimiser runs of the listed (steps, inner_steps) pairs, all concrete; 2-3 parameters",
    "RNG seeds concrete (1,2 mixed with VERIF_SEED): the parameter-index and draw streams are fixed per seed; scores, validity, parameter values, ranges, step size, temperatures and the accept/reject history are symbolic",
    "every float input ranges over a small table of exactly representable values (dyadic grid plus extremes ±1e6, ±2^-70), see kani/src/h_opt.rs; floats outside the tables are outside the claim",
    "scores are finite (NaN scores are outside the properties' 'valid state')",
]

FLAG_OF = {
    "! m.flags.bad_held": "bad_held", "! m.flags.multi_param": "multi_param", "! m.flags.big_move": "big_move",
    "! m.flags.out_of_range": "out_of_range", "! m.flags.bad_exp_arg": "bad_exp_arg", "! m.flags.bad_powf": "bad_powf",
    "! m.flags.exp_twice": "exp_twice", "! m.flags.bad_count": "bad_count",
}


def structural_role(prop, flag, rep, panic=None):
    c = rep["cfg"]
    role = dict(flag=flag)
    if panic:
        role["panic"] = panic
    role["kt_start_zero"] = (c["kt_start"] == 0)
    role["kt_finish_set"] = c["kt_finish"] is not None
    role["kt_ratio_set"] = c["kt_ratio"] is not None
    role["steps_zero"] = c["steps"] == 0
    role["inner_zero"] = c["inner"] == 0
    role["multi_loop"] = c["inner"] > 0 and c["steps"] // max(1, min(c["inner"], c["steps"])) >= 2
    return role


def run(prop, tier, seed, only=None):
    res = Result(prop, tier, seed)
    H = harness_gen.write(seed % 1000)
    names = [n for n, h in H.items() if h["prop"] == prop and (tier == "thorough" or h["tier"] == "quick")]
    if only:
        names = [n for n in names if n in only]
    to = 600 if tier == "quick" else 2400
    jobs = [dict(harness="h_gen::" + n, timeout=to, playback=True, mem_gb=16) for n in names]
    results = kani.run_many(jobs, nslots=8)
    res.functions = ["packing::MCOptimiser::optimise_state (src/optimisation.rs, generic over State, instantiated with the scripted mock)",
                     "packing::BuildOptimiser::{build, setters} (src/optimisation.rs)",
                     "packing::MCOptimiser::{accept_score,test_acceptance,energy_surface}",
                     "packing::StandardBasis::{new,set_sampled,sample,set_value,reset_value,get_value,value_range} (src/basis.rs)",
                     "packing::SharedValue::{new,get_value,set_value} (src/basis.rs)",
                     "rand 0.7 / rand_pcg Pcg64Mcg as compiled (concrete seeds)"]
    res.stubs = STUBS
    res.bounds = BOUNDS_COMMON + ["harnesses: " + ", ".join("%s(steps=%d,inner=%d,np=%d,seed=%d)" % (n, H[n]["shape"]["steps"], H[n]["shape"]["inner"], H[n]["shape"]["np"], H[n]["shape"]["seed"]) for n in names)]
    res.assumptions = ["Kani/CBMC 6.11 bit-precise semantics of the compiled crate; unwinding assertions on",
                       "CBMC's own float NaN-generation checks are not Rust failures and are ignored",
                       "the scripted State answers by call index, except that a vector equal to the held vector gets the held score"]
    for n, r in zip(names, results):
        h = H[n]
        nm = "kani:" + n
        sample = dict(harness=n, shape=h["shape"], status=r["status"], checks=r["n_checks"], solver_s=r["solver_s"])
        cover_ok = any(c["status"] == "SATISFIED" for c in r["covers"])
        if r["status"] == "ok":
            if cover_ok:
                res.ob(nm, "kani", "discharged", "all %d checks passed; reachability witness satisfied" % r["n_checks"], r["solver_s"] or 0, sample)
            else:
                res.ob(nm, "kani", "vacuous", "witness cover not satisfied", r["solver_s"] or 0, sample)
            continue
        if r["status"] in ("timeout", "error", "unwind"):
            res.ob(nm, "kani", "undischarged", r["status"] + " after %.0fs (%s)" % (r["wall_s"], r.get("log")), r["solver_s"] or 0, sample)
            continue
        # failed: replay every failing assertion natively
        handled = False
        for pb in r["playback"] or []:
            if pb["kind"] != "assertion" or not pb["bytes"]:
                continue
            desc = pb["desc"]
            try:
                rep = optreplay.decode(pb["bytes"], h["shape"])
            except Exception as e:
                res.inconclusive.append(dict(harness=n, desc=desc, error="decode: %s" % e))
                continue
            flag = None
            mm = re.search(r"assertion failed: (.*)$", desc)
            if mm:
                flag = FLAG_OF.get(mm.group(1).strip())
            outs = {}
            for prof in ("debug", "release"):
                o, err = optreplay.run_native(rep, prof)
                outs[prof] = o
            reproduced = False
            panic = None
            what = ""
            if flag:
                reproduced = all(o is not None and o["flags"].get(flag) for o in outs.values())
                what = "monitor flag %s" % flag
            else:
                # a panic located in /repo
                reproduced = all(o is not None and o["panicked"] for o in outs.values())
                panic = desc.strip('"')[:80]
                what = "panic: " + panic
            if reproduced:
                handled = True
                role = structural_role(prop, flag, rep, panic)
                st = res.violation("%s in harness %s (cfg=%s)" % (what, n, json.dumps(rep["cfg"])), dict(kind="opt", harness=n, rep=rep, native=outs["debug"]), role)
                res.ob(nm + ":" + (flag or "panic"), "kani+replay", st, what, r["solver_s"] or 0, dict(harness=n, counterexample=rep["cfg"], native=outs["debug"]))
            else:
                # Kani-only observations (arguments handed to exp/powf) have no native counterpart
                res.inconclusive.append(dict(harness=n, desc=desc, flag=flag, cfg=rep["cfg"], native=outs.get("debug")))
        if not handled:
            res.ob(nm, "kani", "undischarged", "solver counterexample did not reproduce natively: " + "; ".join(f["desc"] for f in r["relevant"])[:200], r["solver_s"] or 0, sample)
    return res
