"""Small Kani harnesses that are not about optimise_state (C09 clone isolation, C12 bit-precise swap)."""
import kani


def run_named(res, names, tier, what):
    to = 300 if tier == "quick" else 1200
    rs = kani.run_many([dict(harness="h_misc::" + n, timeout=to, mem_gb=12) for n in names], nslots=4)
    for n, r in zip(names, rs):
        nm = "kani:" + n + ": " + what.get(n, "")
        cover_ok = any(c["status"] == "SATISFIED" for c in r["covers"]) or not r["covers"]
        sample = dict(harness=n, status=r["status"], checks=r["n_checks"], solver_s=r["solver_s"])
        if r["status"] == "ok" and cover_ok:
            res.ob(nm, "kani", "discharged", "%d checks passed" % r["n_checks"], r["solver_s"] or 0, sample)
        elif r["status"] == "failed":
            fails = "; ".join(f["desc"] for f in r["relevant"])[:300]
            st = res.violation("Kani harness %s fails on the compiled code: %s" % (n, fails), dict(kind="kani", harness=n, fails=r["relevant"]), dict(clause=n))
            res.ob(nm, "kani", st, fails, r["solver_s"] or 0, sample)
        else:
            res.ob(nm, "kani", "undischarged", "%s after %.0fs" % (r["status"], r["wall_s"]), r["solver_s"] or 0, sample)
    res.stubs.append("h_misc harnesses: no stubs")


def run_c09(res, tier):
    run_named(res, ["c09_cell_clone_isolated", "c09_site_clone_isolated"], tier,
              {"c09_cell_clone_isolated": "writing through any handle of a cloned cell leaves the original bit-identical, and vice versa",
               "c09_site_clone_isolated": "writing through any handle of a cloned site leaves the original bit-identical"})
