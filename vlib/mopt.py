"""Symbolic execution of the real MCOptimiser::optimise_state MIR on a scripted State.

The optimiser's MIR is executed with concrete control per accept/reject history (one arm per
history) and symbolic data: parameter values, ranges, step size, temperatures, the script's
validity/score answers.  The random draws are either the real generator's stream for a seed
(replayable) or fresh symbolic values constrained to their documented ranges (all seeds).

A specification monitor (Python, below) sees what a recording State sees -- the parameter vector
at every score() call -- and builds, per arm, Bool terms saying "this observation violates
property clause X".  Each (arm path condition AND clause violation) is a solver query.
"""
import os, sys, json, subprocess
sys.path.insert(0, os.path.join(os.path.dirname(os.path.dirname(os.path.abspath(__file__))), "mirsym"))
import terms as T
import engine as E
import summaries as SM
from summaries import builtin, arm_log, arm_log_append, deref_arg
from mirexec import Agg, Enum, Ref, Unsupported, mk_enum, State, Frame

F = E.fvar
MON_SLOT = 900001


def mon_get(st):
    return st.frames[0].locals[MON_SLOT].fields[0]


def mon_set(st, m):
    st.frames[0].locals[MON_SLOT] = Agg("monitor", [m])


def feq(a, b):
    return T.fcmp("feq", a, b)


def fne(a, b):
    return T.bnot(T.fcmp("feq", a, b))


def fabs_gt(d, cap):
    return T.bor(T.fcmp("flt", cap, d), T.fcmp("flt", d, T.fun("fneg", cap)))


class Spec:
    """configuration of one symbolic run"""

    def __init__(self, np, steps, inner, kt_start, kt_finish, kt_ratio, max_step, conv, lo, hi, init, index_stream, moves=None, accepts=None, script_valid=None, script_score=None):
        self.np, self.steps, self.inner = np, steps, inner
        self.kt_start, self.kt_finish, self.kt_ratio = kt_start, kt_finish, kt_ratio
        self.max_step, self.conv = max_step, conv
        self.lo, self.hi, self.init = lo, hi, init
        self.index_stream = index_stream
        self.moves, self.accepts = moves, accepts   # concrete draw streams or None (symbolic)
        self.script_valid = script_valid   # per call t: True / False / None (symbolic)
        self.script_score = script_score   # per call t: float / None (symbolic)


# -------------------------------------------------------------------------------- builtins

@builtin(r"^<impl State as traits::State>::generate_basis$", "scripted State: one StandardBasis per parameter, built by the real StandardBasis::new")
def b_gen_basis(ex, st, a, m, c):
    spec = ex.opt_spec
    sref = a[0]
    f_new = [f for f in ex.fns if f.name.startswith("basis::") and f.name.endswith("::new") and len(f.args) == 3][0] if not hasattr(ex, "_f_basis_new") else ex._f_basis_new
    ex._f_basis_new = f_new
    items = []
    for i in range(spec.np):
        st, b = ex.call_fn(st, f_new, [Ref(sref.depth, sref.local, sref.path + (i,)), spec.lo[i], spec.hi[i]], {})
        items.append(b)
    return st, Agg("vec", items)


@builtin(r"^<impl State as traits::State>::score$", "scripted State::score: records the parameter vector, answers from the symbolic script (a vector equal to the held one gets the held score)")
def b_score(ex, st, a, m, c):
    spec = ex.opt_spec
    sv = deref_arg(ex, st, a[0])
    vec = [sv.fields[i].fields[0].fields[0] for i in range(spec.np)]
    return on_score(ex, st, vec)


@builtin(r"^<Mcg128Xsl64 as rand::Rng>::gen::<f64>$|^<R as rand::Rng>::gen::<f64>$", "Rng::gen::<f64>(): the seed's next acceptance draw (concrete stream) or a fresh u in [0,1)")
def b_gen_f64(ex, st, a, m, c):
    spec = getattr(ex, "opt_spec", None)
    k = sum(1 for e in arm_log(st) if e[0] == "gen")
    if spec is not None and spec.accepts is not None:
        if k >= len(spec.accepts):
            raise Unsupported("acceptance stream exhausted")
        u = float(spec.accepts[k])
    else:
        u = ex.fresh_var("u", "F")
        st.pc.append(T.fcmp("fle", 0.0, u))
        st.pc.append(T.fcmp("flt", u, 1.0))
    arm_log_append(st, ("gen", u))
    return u


@builtin(r"^<Mcg128Xsl64 as rand::Rng>::gen_range::<f64, f64, f64>$|^<R as rand::Rng>::gen_range::<f64, f64, f64>$", "Rng::gen_range(lo,hi): the seed's next move draw or a fresh d in [lo,hi)")
def b_gen_range(ex, st, a, m, c):
    spec = getattr(ex, "opt_spec", None)
    k = sum(1 for e in arm_log(st) if e[0] == "gen_range")
    if spec is not None and spec.moves is not None:
        if k >= len(spec.moves):
            raise Unsupported("move stream exhausted")
        d = float(spec.moves[k])
    else:
        d = ex.fresh_var("d", "F")
        st.pc.append(T.fcmp("fle", a[1], d))
        st.pc.append(T.fcmp("flt", d, a[2]))
    arm_log_append(st, ("gen_range", d))
    return d


# move these two ahead of the generic gen/gen_range summaries
for _ in range(2):
    SM.B.insert(0, SM.B.pop())
    SM.NAMES.insert(0, SM.NAMES.pop())


# -------------------------------------------------------------------------------- the monitor

def new_monitor(spec):
    inner_eff = max(1, min(spec.inner, spec.steps))
    return dict(t=0, held=None, cur=None, kt=spec.kt_start, in_loop=0, loops=0, inner_eff=inner_eff, pend=None, gens=0,
                viol=dict(multi_param=[], bad_held=[], big_move=[], out_of_range=[], decision=[]), conv_count=0, loop_start=None,
                vecs=[], decisions=[], factor=None, hyps=[])


def spec_factor(ex, spec, mon):
    if mon["factor"] is not None:
        return mon["factor"]
    if spec.kt_ratio is not None:
        f = T.fbin("fsub", 1.0, spec.kt_ratio)
    elif spec.kt_finish is not None:
        if not T.is_t(spec.kt_start) and float(spec.kt_start) == 0.0:
            f = 1.0
        else:
            loops = max(1, spec.steps // mon["inner_eff"])
            base = T.fbin("fdiv", spec.kt_finish, spec.kt_start)
            if not T.is_t(base):
                import math
                try:
                    f = math.pow(base, 1.0 / loops)
                except (OverflowError, ValueError):
                    f = float("nan")
            else:
                f = T.uf("powf", [base, 1.0 / loops])
    else:
        f = 0.1
    mon["factor"] = f
    return f


def resolve(ex, st, spec, mon):
    p = mon["pend"]
    if p is None:
        return
    mon["pend"] = None
    vec, valid, s = p
    cur = mon["cur"]
    kt = mon["kt"]
    log = arm_log(st)
    gens = [e[1] for e in log if e[0] == "gen"]
    if len(gens) > mon["gens"]:
        u = gens[mon["gens"]]
        mon["gens"] = len(gens)
    else:
        # the implementation made no draw in this step: the specification's own draw is free
        u = ex.fresh_var("uspec", "F")
        mon["hyps"] += [T.fcmp("fle", 0.0, u), T.fcmp("flt", u, 1.0)]
    better = T.fcmp("flt", cur, s)
    equal = feq(s, cur)
    if not T.is_t(kt) and float(kt) == 0.0:
        d = T.band(valid, T.bor(better, equal))
    elif not T.is_t(kt) and kt != kt:
        d = T.band(valid, T.bor(better, equal))  # NaN spec temperature cannot occur for valid configurations
    else:
        x = T.fbin("fdiv", T.fbin("fsub", s, cur), kt)
        e = T.uf("exp", [x]) if T.is_t(x) else SM.b_trans(ex, st, [x], _M("exp"), "")
        acc = T.fcmp("flt", u, T.fbin("fmin", e, 1.0))
        d = T.band(valid, T.bor(better, acc))
        # a witness is robust (replayable with the true exp) if this decision does not hinge on the
        # uninterpreted value: 1 + x <= e^x <= 1/(1-x) for x < 0
        robust = T.bor(T.bnot(valid), better, equal, T.fcmp("flt", x, -750.0), T.fcmp("flt", u, T.fbin("fadd", 1.0, x)),
                       T.fcmp("flt", 1.0, T.fbin("fmul", u, T.fbin("fsub", 1.0, x))))
        mon["robust"] = mon.get("robust", []) + [robust]
    mon["decisions"].append(d)
    mon["held"] = [T.ite(d, pv, hv) for pv, hv in zip(vec, mon["held"])]
    mon["cur"] = T.ite(d, s, cur)
    mon["in_loop"] += 1
    if mon["in_loop"] == mon["inner_eff"]:
        mon["in_loop"] = 0
        mon["loops"] += 1
        if T.is_t(mon["kt"]) or float(mon["kt"]) != 0.0:
            mon["kt"] = T.fbin("fmul", mon["kt"], spec_factor(ex, spec, mon))
        l_full = 0 if spec.steps == 0 else spec.steps // mon["inner_eff"]
        if spec.conv is not None and mon["loops"] <= l_full:
            mon["conv_c"] = mon.get("conv_c", []) + [T.fcmp("flt", T.fbin("fsub", mon["cur"], mon["loop_start"]), spec.conv)]
        mon["loop_start"] = mon["cur"]


class _M:
    def __init__(self, g):
        self.g = g

    def group(self, i):
        return self.g


def on_score(ex, st, vec):
    spec = ex.opt_spec
    mon = dict(mon_get(st))
    mon["viol"] = {k: list(v) for k, v in mon["viol"].items()}
    mon["vecs"] = mon["vecs"] + [vec]
    mon["decisions"] = list(mon["decisions"])
    mon["hyps"] = list(mon["hyps"])
    t = mon["t"]
    mon["t"] = t + 1
    if t == 0:
        mon["held"] = list(vec)
        mon["cur"] = F("s0")
        mon["loop_start"] = mon["cur"]
        mon_set(st, mon)
        return mk_enum("Option", "Some", [mon["cur"]])
    resolve(ex, st, spec, mon)
    held = mon["held"]
    diffs = [fne(v, h) for v, h in zip(vec, held)]
    pairs = []
    for i in range(len(diffs)):
        for j in range(i + 1, len(diffs)):
            pairs.append(T.band(diffs[i], diffs[j]))
    multi = T.bor(*pairs) if pairs else False
    mon["viol"]["multi_param"].append(multi)
    mon["viol"]["bad_held"].append(multi)
    rng = T.bor(*[T.bor(T.fcmp("flt", v, spec.lo[i]), T.fcmp("flt", spec.hi[i], v)) for i, v in enumerate(vec)])
    mon["viol"]["out_of_range"].append(rng)
    big = []
    for i, (v, h) in enumerate(zip(vec, held)):
        cap = T.fbin("fmul", T.fbin("fmul", spec.max_step, T.fbin("fsub", spec.hi[i], spec.lo[i])), 0.5)
        capt = T.fbin("fadd", T.fbin("fmul", cap, 1.0 + 1e-9), 1e-12)
        big.append(fabs_gt(T.fbin("fsub", v, h), capt))
    mon["viol"]["big_move"].append(T.bor(*big))
    p_full = 0 if spec.steps == 0 else (spec.steps // mon["inner_eff"]) * mon["inner_eff"]
    # proposals are answered from the script by call index even if the vector equals the held one;
    # later calls (final validity check) see the held score when they see the held vector
    eq = T.band(*[feq(v, h) for v, h in zip(vec, held)]) if t > p_full else False
    sv = spec.script_valid[t] if (spec.script_valid is not None and t < len(spec.script_valid)) else None
    ss = spec.script_score[t] if (spec.script_score is not None and t < len(spec.script_score)) else None
    valid_t = T.var("valid%d" % t, "B") if sv is None else bool(sv)
    s_t = F("s%d" % t) if ss is None else float(ss)
    valid_eff = T.bor(eq, valid_t)
    score_eff = T.ite(eq, mon["cur"], s_t)
    mon["pend"] = (list(vec), valid_eff, score_eff)
    mon_set(st, mon)
    if valid_eff is True:
        return mk_enum("Option", "Some", [score_eff])
    if valid_eff is False:
        return mk_enum("Option", "None", [])
    return Enum("Option", [(valid_eff, "Some", [score_eff]), (T.bnot(valid_eff), "None", [])])


# -------------------------------------------------------------------------------- running

def mcoptimiser(spec, ex):
    """the MCOptimiser value the real BuildOptimiser::build produces for this configuration"""
    f_build = E.find_fn(ex, r"^optimisation::<impl at [^>]*>::build$")
    opt_f = lambda v: mk_enum("Option", "None", []) if v is None else mk_enum("Option", "Some", [v])
    # BuildOptimiser fields in declaration order
    bo = Agg("struct:BuildOptimiser", [spec.steps, spec.kt_start, opt_f(spec.kt_finish), opt_f(spec.kt_ratio), spec.max_step, spec.inner,
                                      mk_enum("Option", "Some", [1]), opt_f(spec.conv)])
    rv, pc, st = E.run(ex, f_build, [E.ByRef(bo)])
    return rv, pc


def run_spec(ex, spec):
    """-> list of arms: dict(pc, viol, final_viol, calls, mon)  plus the build() path condition"""
    ex.opt_spec = spec
    ex.index_stream = spec.index_stream
    ex.no_loop_merge = True
    opt, pc0 = mcoptimiser(spec, ex)
    f_opt = E.find_fn(ex, r"optimise_state$")
    state = Agg("struct:Scripted", [E.shared(v) for v in spec.init])
    st = State()
    root = Frame(f_opt, {})
    st.frames.append(root)
    st.pc = list(pc0)
    root.locals[1000] = opt
    mon_set(st, new_monitor(spec))
    n_panics = len(ex.panics)
    arms = ex.call_fn(st, f_opt, [Ref(0, 1000, ()), state], {}, collect=True)
    out = []
    for s, rv in arms:
        mon = dict(mon_get(s))
        mon["viol"] = {k: list(v) for k, v in mon["viol"].items()}
        mon["hyps"] = list(mon["hyps"])
        calls_in_opt = mon["t"]
        # last call may have been the final validity check
        last_equal = False
        if mon["pend"] is not None:
            pv = mon["pend"][0]
            last_equal = True  # decided symbolically below through the held comparison
        resolve(ex, s, spec, mon)
        fin = [rv.fields[i].fields[0].fields[0] for i in range(spec.np)]
        mon["viol"]["bad_held"].append(T.bor(*[fne(a, b) for a, b in zip(fin, mon["held"])]))
        mon["viol"]["count"] = [count_violation(spec, mon, calls_in_opt)]
        out.append(dict(pc=list(s.pc) + mon["hyps"], viol=mon["viol"], calls=calls_in_opt, mon=mon, final=fin, log=list(arm_log(s)), robust=list(mon.get("robust", []))))
    panics = ex.panics[n_panics:]
    return out, panics


def count_violation(spec, mon, calls):
    """C20: Bool term 'the number of proposals this history evaluated is not what the
    specification allows' (P is calls-1, or calls-2 if the last call was the final validity check)"""
    inner_eff = mon["inner_eff"]
    steps = spec.steps
    l_full = 0 if steps == 0 else steps // inner_eff
    c = mon.get("conv_c", [])
    S_ = {}
    for l in range(6, len(c) + 1):
        S_[l] = T.band(*c[l - 6:l])
    first = {}
    for l in sorted(S_):
        first[l] = T.band(S_[l], *[T.bnot(S_[k]) for k in S_ if k < l])
    nostop = T.band(*[T.bnot(v) for v in S_.values()]) if S_ else True
    n = calls - 1

    def ok(p):
        if p < 0:
            return False
        alts = []
        for l, f in first.items():
            if p == l * inner_eff:
                alts.append(f)
        in_range = (p <= steps and p + inner_eff > steps) or (steps == 0 and p == 0)
        # a run that stops early without the rule being met, or goes on although it is met, is wrong
        if in_range and (l_full == 0 or p >= l_full * inner_eff or True):
            alts.append(nostop if p >= l_full * inner_eff or steps == 0 else False)
        return T.bor(*alts) if alts else False
    return T.bnot(T.bor(ok(n), ok(n - 1)))


def native_stream(seed, np, steps):
    binp = os.path.join(E.TARGET, "replay", "debug", "pv_replay")
    p = subprocess.run([binp, "rng", str(seed), str(np), str(steps)], stdout=subprocess.PIPE, text=True)
    return json.loads(p.stdout)


def exp_axioms(terms_):
    """instance axioms for every exp application occurring in the query: positivity, exp(0)=1,
    sign-dependent bound, pairwise monotonicity"""
    seen, apps, stack = set(), [], [t for t in terms_ if T.is_t(t)]
    while stack:
        t = stack.pop()
        if t.id in seen:
            continue
        seen.add(t.id)
        if t.op == "uf" and t.args[0] == "exp":
            apps.append(t)
        stack.extend(x for x in t.args if T.is_t(x))
    ax = []
    for a in apps:
        x = a.args[1]
        ax += [T.fcmp("flt", 0.0, a), T.bor(T.bnot(T.fcmp("flt", x, 0.0)), T.fcmp("flt", a, 1.0)),
               T.bor(T.bnot(T.fcmp("flt", 0.0, x)), T.fcmp("flt", 1.0, a)), T.bor(T.bnot(feq(x, 0.0)), feq(a, 1.0))]
    for i in range(len(apps)):
        for j in range(len(apps)):
            if i != j:
                ax.append(T.bor(T.bnot(T.fcmp("flt", apps[i].args[1], apps[j].args[1])), T.fcmp("flt", apps[i], apps[j])))
                if i < j:
                    ax.append(T.bor(T.bnot(feq(apps[i].args[1], apps[j].args[1])), feq(apps[i], apps[j])))
    return ax
