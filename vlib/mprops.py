"""Properties decided by the MIR engine (mirsym): symbolic execution of the crate's MIR + z3."""
import os, sys, json, math, time, itertools
sys.path.insert(0, os.path.join(os.path.dirname(os.path.dirname(os.path.abspath(__file__))), "mirsym"))
import terms as T
import engine as E
import states as S
import summaries
from mirexec import Agg, Enum, Ref, Unsupported, mk_enum
from core import Result
from mq import Query, run_queries, record, native_eval, jf, unjf
import polyq

F = E.fvar


def fn_span(ex, fn):
    return "%s (MIR lines %d-%d, %d blocks)" % (fn.name, fn.line, fn.end_line, len(fn.blocks))


def used_fns(ex):
    by = {f.name: f for f in ex.fns}
    return sorted(fn_span(ex, by[n]) for n in ex.stats["fns"] if n in by)


def summaries_used():
    return ["%s :: %s" % (rx, doc) for rx, doc in summaries.NAMES]


# ------------------------------------------------------------------------------ symbolic values

def pt(p):
    return S.point(F(p + "x"), F(p + "y"))


def sym_line(p):
    return Agg("struct:Line2", [pt(p + "s"), pt(p + "e")])


def sym_atom(p):
    return Agg("struct:Atom2", [pt(p), F(p + "r")])


def sym_lj(p, cutoff="sym"):
    if cutoff == "sym":
        has = T.var(p + "hascut", "B")
        cut = Enum("Option", [(has, "Some", [F(p + "cut")]), (T.bnot(has), "None", [])])
    elif cutoff is None:
        cut = mk_enum("Option", "None", [])
    else:
        cut = mk_enum("Option", "Some", [cutoff])
    return Agg("struct:LJ2", [pt(p), F(p + "sigma"), F(p + "eps"), cut])


def rigid(p, reflect=False, last=1.0):
    """symbolic rigid motion / reflection as a Transform2; returns (value, constraints)"""
    c, s, tx, ty = F(p + "c"), F(p + "s"), F(p + "tx"), F(p + "ty")
    if reflect:
        m = [c, s, tx, s, T.fun("fneg", c), ty, 0.0, 0.0, last]
    else:
        m = [c, T.fun("fneg", s), tx, s, c, ty, 0.0, 0.0, last]
    unit = T.fcmp("feq", T.fbin("fadd", T.fbin("fmul", c, c), T.fbin("fmul", s, s)), 1.0)
    return S.transform2(m), [unit]


def xor(a, b):
    return T.bnot(T.beq(a, b))


def line_vals(m, p):
    return [m.get(p + "sx", 0.0), m.get(p + "sy", 0.0), m.get(p + "ex", 0.0), m.get(p + "ey", 0.0)]


# ------------------------------------------------------------------------------ C12

def c12(res, tier, seed):
    ex = E.load()
    qs = []
    f_atom = E.find_fn(ex, r"^atom2::.*::intersects$")
    f_line = E.find_fn(ex, r"^line2::.*::intersects$")
    f_mol = E.find_fn(ex, r"^molecular_shape2::.*::intersects$")
    f_ls = E.find_fn(ex, r"^line_shape::.*::intersects$")
    f_mol_tr = E.find_fn(ex, r"^molecular_shape2::.*::transform$")
    f_ls_tr = E.find_fn(ex, r"^line_shape::.*::transform$")

    # ---- discs
    a, b = sym_atom("a"), sym_atom("b")
    code_ab, pc, _ = E.run(ex, f_atom, [E.ByRef(a), E.ByRef(b)])
    code_ba, _, _ = E.run(ex, f_atom, [E.ByRef(b), E.ByRef(a)])
    ax, ay, ar = a.fields[0].fields[0], a.fields[0].fields[1], a.fields[1]
    bx, by, br = b.fields[0].fields[0], b.fields[0].fields[1], b.fields[1]
    dx, dy = T.fbin("fsub", ax, bx), T.fbin("fsub", ay, by)
    d2 = T.fbin("fadd", T.fbin("fmul", dx, dx), T.fbin("fmul", dy, dy))
    rs = T.fbin("fadd", ar, br)
    ref = T.fcmp("flt", d2, T.fbin("fmul", rs, rs))
    nonneg = [T.fcmp("fle", 0.0, ar), T.fcmp("fle", 0.0, br)]
    # reference: open discs meet  <=>  exists point p with |p-a|<ra and |p-b|<rb  <=>  |a-b| < ra+rb.
    qs.append(Query("disc: code == (|a-b|^2 < (ra+rb)^2)", nonneg + pc + [xor(code_ab, ref)], meta=dict(fn="Atom2::intersects")))
    # the witness-point direction: if the code says yes there is a common interior point (on the
    # centre line at fraction ra/(ra+rb)); if it says no and a point lies in both discs -> contradiction
    px, py = F("px"), F("py")
    inA = T.fcmp("flt", T.fbin("fadd", T.fbin("fmul", T.fbin("fsub", px, ax), T.fbin("fsub", px, ax)), T.fbin("fmul", T.fbin("fsub", py, ay), T.fbin("fsub", py, ay))), T.fbin("fmul", ar, ar))
    inB = T.fcmp("flt", T.fbin("fadd", T.fbin("fmul", T.fbin("fsub", px, bx), T.fbin("fsub", px, bx)), T.fbin("fmul", T.fbin("fsub", py, by), T.fbin("fsub", py, by))), T.fbin("fmul", br, br))
    # w.l.o.g. a at the origin and b on the x axis (justified by the rigid-motion obligations below)
    wl = [T.fcmp("feq", ax, 0.0), T.fcmp("feq", ay, 0.0), T.fcmp("feq", by, 0.0), T.fcmp("fle", 0.0, bx)]
    qs.append(Query("disc: code says no => no common interior point (a at origin, b on the x axis)", nonneg + wl + pc + [T.bnot(code_ab), inA, inB], timeout=120,
                    meta=dict(fn="Atom2::intersects"), witness=nonneg + wl + [T.bnot(code_ab)]))
    lam = F("lam")
    wx = T.fbin("fadd", ax, T.fbin("fmul", lam, T.fbin("fsub", bx, ax)))
    wy = T.fbin("fadd", ay, T.fbin("fmul", lam, T.fbin("fsub", by, ay)))
    inAw = T.fcmp("flt", T.fbin("fmul", T.fbin("fmul", lam, lam), d2), T.fbin("fmul", ar, ar))
    oml = T.fbin("fsub", 1.0, lam)
    inBw = T.fcmp("flt", T.fbin("fmul", T.fbin("fmul", oml, oml), d2), T.fbin("fmul", br, br))
    # choose lam = ra/(ra+rb) (when ra+rb>0): then both hold iff d < ra+rb
    qs.append(Query("disc: code says yes => point at fraction ra/(ra+rb) is interior to both",
                    nonneg + pc + [code_ab, T.fcmp("flt", 0.0, ar), T.fcmp("flt", 0.0, br), T.fcmp("feq", T.fbin("fmul", lam, rs), ar), T.bnot(T.band(inAw, inBw))],
                    timeout=120, meta=dict(fn="Atom2::intersects"), witness=nonneg + [code_ab]))
    qs.append(Query("disc: swap symmetry", pc + [xor(code_ab, code_ba)], meta=dict(fn="Atom2::intersects")))

    # ---- molecules: any pair of the 3x3 component discs; rigid motions through the real transform code
    def sym_mol(p, n):
        return Agg("struct:MolecularShape2", [Agg("str", ["m"]), Agg("vec", [sym_atom("%s%d" % (p, i)) for i in range(n)])])
    for n in ((1, 3) if tier == "quick" else (1, 2, 3)):
        ma, mb = sym_mol("a", n), sym_mol("b", n)
        code_m, pcm, _ = E.run(ex, f_mol, [E.ByRef(ma), E.ByRef(mb)])
        code_m_sw, _, _ = E.run(ex, f_mol, [E.ByRef(mb), E.ByRef(ma)])
        refs = []
        for i in range(n):
            for j in range(n):
                r1, _, _ = E.run(ex, f_atom, [E.ByRef(ma.fields[1].fields[i]), E.ByRef(mb.fields[1].fields[j])])
                refs.append(r1)
        qs.append(Query("molecule(%d): shape test == OR over all %d disc pairs" % (n, n * n), pcm + [xor(code_m, T.bor(*refs))], meta=dict(fn="MolecularShape2::intersects")))
        qs.append(Query("molecule(%d): swap symmetry" % n, pcm + [xor(code_m, code_m_sw)], meta=dict(fn="MolecularShape2::intersects")))
    for refl in (False, True):
        for last in (1.0, 0.0):
            tr, cons = rigid("g", refl, last)
            ma, mb = sym_mol("a", 1), sym_mol("b", 1)
            ta, pca, _ = E.run(ex, f_mol_tr, [E.ByRef(ma), E.ByRef(tr)])
            tb, pcb, _ = E.run(ex, f_mol_tr, [E.ByRef(mb), E.ByRef(tr)])
            c0, _, _ = E.run(ex, f_mol, [E.ByRef(ma), E.ByRef(mb)])
            c1, _, _ = E.run(ex, f_mol, [E.ByRef(ta), E.ByRef(tb)])
            qs.append(Query("disc: invariant under common %s (transform via MolecularShape2::transform, bottom row (0,0,%g))" % ("reflection" if refl else "rotation+translation", last),
                            cons + pca + pcb + [xor(c0, c1)], timeout=120, meta=dict(fn="MolecularShape2::transform + intersects")))

    # ---- segments
    la, lb = sym_line("a"), sym_line("b")
    code_l, pcl, _ = E.run(ex, f_line, [E.ByRef(la), E.ByRef(lb)])
    code_l_sw, _, _ = E.run(ex, f_line, [E.ByRef(lb), E.ByRef(la)])
    asx, asy, aex, aey = [la.fields[i].fields[j] for i in (0, 1) for j in (0, 1)]
    bsx, bsy, bex, bey = [lb.fields[i].fields[j] for i in (0, 1) for j in (0, 1)]
    adx, ady = T.fbin("fsub", aex, asx), T.fbin("fsub", aey, asy)
    bdx, bdy = T.fbin("fsub", bex, bsx), T.fbin("fsub", bey, bsy)
    den = T.fbin("fsub", T.fbin("fmul", bdy, adx), T.fbin("fmul", bdx, ady))
    sx, sy = T.fbin("fsub", asx, bsx), T.fbin("fsub", asy, bsy)
    ua = F("ua")
    ub = F("ub")
    # reference: non-parallel and the unique solution (ua,ub) of a.s+ua*da = b.s+ub*db lies in [0,1]^2
    sol = [T.fcmp("feq", T.fbin("fadd", asx, T.fbin("fmul", ua, adx)), T.fbin("fadd", bsx, T.fbin("fmul", ub, bdx))),
           T.fcmp("feq", T.fbin("fadd", asy, T.fbin("fmul", ua, ady)), T.fbin("fadd", bsy, T.fbin("fmul", ub, bdy)))]
    inunit = T.band(T.fcmp("fle", 0.0, ua), T.fcmp("fle", ua, 1.0), T.fcmp("fle", 0.0, ub), T.fcmp("fle", ub, 1.0))
    nonpar = T.bnot(T.fcmp("feq", den, 0.0))
    qs.append(Query("segment: code yes => non-parallel", pcl + [code_l, T.bnot(nonpar)], meta=dict(fn="Line2::intersects")))
    qs.append(Query("segment: for non-parallel segments with common point a.s+ua*da = b.s+ub*db: code == (ua,ub in [0,1])",
                    pcl + [nonpar] + sol + [xor(code_l, inunit)], timeout=120, meta=dict(fn="Line2::intersects"),
                    witness=[nonpar] + sol + [inunit]))
    box_ = [T.fcmp("fle", -100.0, v_) for v_ in (asx, asy, aex, aey, bsx, bsy, bex, bey)] + [T.fcmp("fle", v_, 100.0) for v_ in (asx, asy, aex, aey, bsx, bsy, bex, bey)]
    inside_m = T.band(T.fcmp("fle", 0.01, ua), T.fcmp("fle", ua, 0.99), T.fcmp("fle", 0.01, ub), T.fcmp("fle", ub, 0.99))
    outside_m = T.bor(T.fcmp("flt", ua, -0.01), T.fcmp("flt", 1.01, ua), T.fcmp("flt", ub, -0.01), T.fcmp("flt", 1.01, ub))
    qs[-1].robust = box_ + [T.bor(T.fcmp("fle", 0.01, den), T.fcmp("fle", den, -0.01)), T.bor(T.band(inside_m, T.bnot(code_l)), T.band(outside_m, code_l))]
    qs.append(Query("segment: parallel => code no", pcl + [T.fcmp("feq", den, 0.0), code_l], meta=dict(fn="Line2::intersects")))
    qs.append(Query("segment: swap symmetry (reals)", pcl + [xor(code_l, code_l_sw)], meta=dict(fn="Line2::intersects")))
    # bit-precise swap symmetry: the float expressions are exact negations of each other
    if tier == "thorough":
      qs.append(Query("segment: swap symmetry (IEEE-754 doubles, finite inputs)", pcl + [xor(code_l, code_l_sw)] + [T.band(T.fcmp("fle", -1e6, v), T.fcmp("fle", v, 1e6)) for v in (asx, asy, aex, aey, bsx, bsy, bex, bey)],
                    mode="F", timeout=60 if tier == "quick" else 900, meta=dict(fn="Line2::intersects")))
    f_line_mul = [f for f in ex.fns if f.name.startswith("line2_ops::") and f.name.endswith("::mul") and "&line2::Line2" in f.args[0][1] and "&transform::Transform2" in f.args[1][1]]
    for refl in (False, True):
        tr, cons = rigid("g", refl, 0.0)
        ta, p1, _ = E.run(ex, f_line_mul[0], [E.ByRef(la), E.ByRef(tr)])
        tb, p2, _ = E.run(ex, f_line_mul[0], [E.ByRef(lb), E.ByRef(tr)])
        c1, p3, _ = E.run(ex, f_line, [E.ByRef(ta), E.ByRef(tb)])
        qs.append(Query("segment: invariant under common %s (via Line2 * Transform2)" % ("reflection" if refl else "rotation+translation"),
                        cons + pcl + p1 + p2 + p3 + [xor(code_l, c1)], timeout=180 if tier == "quick" else 900, meta=dict(fn="line2_ops::mul + Line2::intersects")))

    # ---- polygons: LineShape::intersects == OR over edge pairs; lemma L(n)
    data = S.real_data()
    ns = (3, 4, 6) if tier == "quick" else (3, 4, 5, 6, 8)
    for n in ns:
        shape = S.shape_value(data["shapes"]["polygon%d" % n])
        raw_items = shape.fields[1].fields
        # from_radial computes an edge's end as sin(angle+dtheta) and the next edge's start as
        # sin((i+1)*dtheta): they can differ in the last bit, leaving gaps of ~1e-16 between
        # consecutive edges.  Far below the 1e-9 tolerance; the lemma is stated for the closed
        # polygon through the edge starts, and the gap size is checked here (concretely).
        gap = 0.0
        items = []
        for i, e in enumerate(raw_items):
            nxt = raw_items[(i + 1) % n]
            gap = max(gap, abs(e.fields[1].fields[0] - nxt.fields[0].fields[0]), abs(e.fields[1].fields[1] - nxt.fields[0].fields[1]))
            # vertices rounded to the 2^-40 grid (1e-12): small rationals keep nlsat fast; the lemma is
            # a statement about a convex polygon within 1e-12 of the real one
            rnd = lambda p: S.point(round(p.fields[0] * 2 ** 40) / 2 ** 40, round(p.fields[1] * 2 ** 40) / 2 ** 40)
            items.append(Agg("struct:Line2", [rnd(e.fields[0]), rnd(nxt.fields[0])]))
        qs.append(Query("polygon(%d): consecutive edges of LineShape::polygon meet within 1e-12 (max gap %.3g)" % (n, gap), [gap > 1e-12], meta=dict(fn="LineShape::from_radial (native data)"), nontrivial=False))
        # inside(P): left of every edge (vertices are ordered clockwise: start=(0,1) -> (1,0))
        def side(e, qx, qy):
            s0, e0 = e.fields[0].fields, e.fields[1].fields
            ex_, ey_ = e0[0] - s0[0], e0[1] - s0[1]
            return T.fbin("fsub", T.fbin("fmul", ex_, T.fbin("fsub", qy, s0[1])), T.fbin("fmul", ey_, T.fbin("fsub", qx, s0[0])))
        # orientation: centre (0,0) is strictly inside
        sgn = 1.0 if all((lambda v: v)(float(T.evaluate(side(e, 0.0, 0.0), {}))) > 0 for e in items) else -1.0
        P = (F("px"), F("py"))
        Qp = (F("qx"), F("qy"))
        inP = [T.fcmp("flt", 0.0, T.fbin("fmul", sgn, side(e, *P))) for e in items]
        outQ = T.bor(*[T.fcmp("fle", T.fbin("fmul", sgn, side(e, *Qp)), 0.0) for e in items])
        seg = Agg("struct:Line2", [S.point(*P), S.point(*Qp)])
        for order in ("seg,edge", "edge,seg"):
            hits = []
            pcs = []
            for e in items:
                args = [E.ByRef(seg), E.ByRef(e)] if order == "seg,edge" else [E.ByRef(e), E.ByRef(seg)]
                h, p, _ = E.run(ex, f_line, args)
                hits.append(h)
                pcs += p
            # parallel-to-an-edge segments are the documented blind spot of the edge test: the
            # lemma is about segments not parallel to the edge they leave through; generic
            # position is expressed by excluding exact parallelism with every edge.
            notpar = []
            for e in items:
                s0, e0 = e.fields[0].fields, e.fields[1].fields
                ex_, ey_ = e0[0] - s0[0], e0[1] - s0[1]
                notpar.append(T.bnot(T.fcmp("feq", T.fbin("fsub", T.fbin("fmul", ey_, T.fbin("fsub", Qp[0], P[0])), T.fbin("fmul", ex_, T.fbin("fsub", Qp[1], P[1]))), 0.0)))
            qs.append(Query("polygon L(%d) [%s]: a segment from strictly inside to not strictly inside, parallel to no edge, is reported as crossing an edge" % (n, order),
                            pcs + inP + [outQ] + notpar + [T.bnot(T.bor(*hits))], timeout=120 if tier == "quick" else 900,
                            meta=dict(fn="Line2::intersects x %d edges of LineShape::polygon(%d)" % (n, n)), witness=inP + [outQ] + notpar))
        if n <= 4 or tier == "thorough":
            # LineShape::intersects is exactly the OR over all edge pairs
            def sym_poly(p):
                return Agg("struct:LineShape", [Agg("str", ["p"]), Agg("vec", [sym_line("%s%d" % (p, i)) for i in range(n)])])
            pa, pb = sym_poly("a"), sym_poly("b")
            cs, pcs2, _ = E.run(ex, f_ls, [E.ByRef(pa), E.ByRef(pb)])
            refs = []
            for i in range(n):
                for j in range(n):
                    r1, _, _ = E.run(ex, f_line, [E.ByRef(pa.fields[1].fields[i]), E.ByRef(pb.fields[1].fields[j])])
                    refs.append(r1)
            qs.append(Query("polygon(%d): shape test == OR over all %d edge pairs" % (n, n * n), pcs2 + [xor(cs, T.bor(*refs))], meta=dict(fn="LineShape::intersects")))

    # ---- polygon pairs at the level of the property's own statement: copy A at the identity, copy B rotated (or
    # mirrored and rotated) by an angle from a grid and translated by a symbolic offset.  With the rotation concrete the
    # real transform + intersects code is linear in the offset, so every query is decided at once.  unsat on the grid
    # proves nothing between grid angles (the for-all statement is carried by L(n) and the edge-pair obligation above);
    # the point of these obligations is that a model is a pair of placed polygons the native test can be asked about.
    pair_qs = []
    NPHI = 24 if tier == "quick" else 96
    pdx, pdy = F("pdx"), F("pdy")
    boxp = [T.fcmp("fle", -3.0, pdx), T.fcmp("fle", pdx, 3.0), T.fcmp("fle", -3.0, pdy), T.fcmp("fle", pdy, 3.0)]
    for n in ((3, 4, 6) if tier == "quick" else (3, 4, 5, 6)):
        sdata = data["shapes"]["polygon%d" % n]
        shape_val = S.shape_value(sdata)
        sitems = [tuple(S.clean(unjf(v)) for v in it_) for it_ in sdata["items"]]
        for mirror in (False, True):
            for kphi in range(2 * NPHI):
                if tier == "quick" and n == 6 and (kphi % 2 == 1 or (kphi // 2) % 2 == 1):
                    continue   # hexagon in the quick tier: the twelve aligned angles only
                phi = (kphi // 2) * 2 * math.pi / NPHI + (0.0 if kphi % 2 == 0 else math.pi / NPHI + 0.0071)
                cph, sph = math.cos(phi), math.sin(phi)
                mx = -1.0 if mirror else 1.0
                Pm = [1.0, 0.0, 0.0, 0.0, 1.0, 0.0]
                Qm = [cph * mx, -sph, pdx, sph * mx, cph, pdy]
                s1, p1, _ = E.run(ex, f_ls_tr, [E.ByRef(shape_val), E.ByRef(S.transform2(Pm + [0.0, 0.0, 1.0]))])
                s2, p2, _ = E.run(ex, f_ls_tr, [E.ByRef(shape_val), E.ByRef(S.transform2(Qm + [0.0, 0.0, 1.0]))])
                cab, p3, _ = E.run(ex, f_ls, [E.ByRef(s1), E.ByRef(s2)])
                cba, p4, _ = E.run(ex, f_ls, [E.ByRef(s2), E.ByRef(s1)])
                deep = true_overlap("line", sitems, Pm, Qm, tol=1e-6)
                sep = T.bnot(true_overlap("line", sitems, Pm, Qm, tol=-1e-6))
                meta_ = dict(fn="LineShape::transform + LineShape::intersects", n=n, mirror=mirror, phi=phi, kind="pair")
                pair_qs.append(Query("polygon(%d) pair, %srotation %.4f: overlap deeper than 1e-6 => test says yes" % (n, "mirror + " if mirror else "", phi), boxp + [deep, T.bnot(cab)], timeout=30, meta=meta_))
                pair_qs.append(Query("polygon(%d) pair, %srotation %.4f: separated by more than 1e-6 => test says no" % (n, "mirror + " if mirror else "", phi), boxp + [sep, cab], timeout=30, meta=meta_))
                pair_qs.append(Query("polygon(%d) pair, %srotation %.4f: same answer with the arguments swapped" % (n, "mirror + " if mirror else "", phi), boxp + [xor(cab, cba)], timeout=30, meta=meta_))

    # ---- encoder validation against the real functions (path-covering models + repo test vectors)
    val = validate_kernels(ex, f_line, f_atom, code_l, code_ab, la, lb, a, b)
    done = run_queries(qs)
    pair_done = run_queries(pair_qs)

    def replay(q):
        m = q.model
        if "Line2" in q.meta.get("fn", "") and "segment: swap" in q.name:
            A, Bv = line_vals(m, "a"), line_vals(m, "b")
            for prof in ("debug", "release"):
                r = native_eval([dict(fn="Line2::intersects", args=[list(map(jf, A)), list(map(jf, Bv))]), dict(fn="Line2::intersects", args=[list(map(jf, Bv)), list(map(jf, A))])], prof)
                if r[0] == r[1]:
                    return ("spurious", "real function is symmetric on the model (rounded to doubles)")
            return ("violated", "Line2::intersects(a,b) != intersects(b,a) for a=%s b=%s" % (A, Bv), dict(kind="eval", fn="Line2::intersects", a=A, b=Bv), dict(clause="swap", fn="Line2::intersects"))
        if q.name.startswith("disc: swap"):
            A = [m.get("ax", 0.), m.get("ay", 0.), m.get("ar", 0.)]
            Bv = [m.get("bx", 0.), m.get("by", 0.), m.get("br", 0.)]
            r = native_eval([dict(fn="Atom2::intersects", args=[A, Bv]), dict(fn="Atom2::intersects", args=[Bv, A])])
            if r[0] != r[1]:
                return ("violated", "Atom2::intersects not symmetric for %s %s" % (A, Bv), dict(kind="eval", fn="Atom2::intersects", a=A, b=Bv), dict(clause="swap", fn="Atom2::intersects"))
            return ("spurious", "symmetric natively")
        if q.name.startswith("disc: code =="):
            A = [m.get("ax", 0.), m.get("ay", 0.), m.get("ar", 0.)]
            Bv = [m.get("bx", 0.), m.get("by", 0.), m.get("br", 0.)]
            r = native_eval([dict(fn="Atom2::intersects", args=[A, Bv])])[0]
            d = math.hypot(A[0] - Bv[0], A[1] - Bv[1])
            truth = d < A[2] + Bv[2]
            margin = abs(d - (A[2] + Bv[2]))
            if r != truth and margin > 1e-9:
                return ("violated", "Atom2::intersects(%s,%s)=%s but centre distance %.12g vs radii sum %.12g" % (A, Bv, r, d, A[2] + Bv[2]),
                        dict(kind="eval", fn="Atom2::intersects", a=A, b=Bv), dict(clause="disc-geometry", fn="Atom2::intersects"))
            return ("spurious", "agrees natively (margin %.3g)" % margin)
        if q.name.startswith("segment:") or q.name.startswith("polygon L"):
            # evaluate the real function on the model and compare with exact rational geometry
            return replay_segment(q)
        return None

    for q in done:
        record(res, q, replay)

    def replay_pair(q):
        mt = q.meta
        dxv, dyv = q.model.get("pdx"), q.model.get("pdy")
        if dxv is None or dyv is None:
            return ("spurious", "model not numeric")
        cph, sph = math.cos(mt["phi"]), math.sin(mt["phi"])
        mx = -1.0 if mt["mirror"] else 1.0
        A_ = [1.0, 0.0, 0.0, 0.0, 1.0, 0.0, 0.0, 0.0, 1.0]
        B_ = [cph * mx, -sph, dxv, sph * mx, cph, dyv, 0.0, 0.0, 1.0]
        outs = [native_eval([dict(fn="LineShape::intersects", args=[[1.0] * mt["n"], A_, B_])], prof)[0] for prof in ("debug", "release")]
        o = outs[0]
        if "va" not in o:
            return ("spurious", "native call failed")
        va, vb = [[unjf(c_) for c_ in v_] for v_ in o["va"]], [[unjf(c_) for c_ in v_] for v_ in o["vb"]]
        # exact-geometry verdict with floats and a margin: penetration depth along the best separating edge normal
        def depth(VA, VB):
            best = None
            nA = len(VA)
            for k_ in range(nA):
                (x0, y0), (x1, y1) = VA[k_], VA[(k_ + 1) % nA]
                (xi, yi) = VA[(k_ + 2) % nA]
                ex_, ey_ = x1 - x0, y1 - y0
                ln = math.hypot(ex_, ey_)
                sd = lambda px_, py_: (ex_ * (py_ - y0) - ey_ * (px_ - x0)) / ln
                sg = 1.0 if sd(xi, yi) > 0 else -1.0
                dk = max(sg * sd(bx_, by_) for bx_, by_ in VB)     # how deep B reaches inside edge k of A
                best = dk if best is None else min(best, dk)
            return best
        pen = min(depth(va, vb), depth(vb, va))   # > 0: interiors intersect by about pen; < 0: separated by about -pen
        said = [(o_["ab"], o_["ba"]) for o_ in outs]
        what = None
        if "overlap deeper" in q.name and pen > 1e-8 and all(not s_[0] for s_ in said):
            what = "the polygons overlap by %.3g but LineShape::intersects says no" % pen
        elif "separated by" in q.name and pen < -1e-8 and all(s_[0] for s_ in said):
            what = "the polygons are %.3g apart but LineShape::intersects says yes" % -pen
        elif "swapped" in q.name and all(s_[0] != s_[1] for s_ in said):
            what = "intersects(a,b) = %s but intersects(b,a) = %s" % said[0]
        if what:
            # do the two boundaries cross anywhere but at edge ends?  (exactly aligned copies meet only at vertices)
            interior_crossing = False
            nA = len(va)
            for i_ in range(nA):
                a0, a1 = va[i_], va[(i_ + 1) % nA]
                for j_ in range(nA):
                    b0, b1 = vb[j_], vb[(j_ + 1) % nA]
                    adx_, ady_, bdx_, bdy_ = a1[0] - a0[0], a1[1] - a0[1], b1[0] - b0[0], b1[1] - b0[1]
                    den_ = bdy_ * adx_ - bdx_ * ady_
                    if abs(den_) < 1e-12:
                        continue
                    ua_ = (bdx_ * (a0[1] - b0[1]) - bdy_ * (a0[0] - b0[0])) / den_
                    ub_ = (adx_ * (a0[1] - b0[1]) - ady_ * (a0[0] - b0[0])) / den_
                    if 1e-9 < ua_ < 1 - 1e-9 and 1e-9 < ub_ < 1 - 1e-9:
                        interior_crossing = True
            return ("violated", "polygon(%d) pair, B %srotated by %.6g and moved by (%.9g, %.9g): %s%s" % (mt["n"], "mirrored, " if mt["mirror"] else "", mt["phi"], dxv, dyv, what,
                                                                                                         "" if interior_crossing else " (the boundaries meet only at edge ends)"),
                    dict(kind="eval", fn="LineShape::intersects", radii=[1.0] * mt["n"], a=A_, b=B_, native=outs[0]), dict(clause="polygon-pair", sides=mt["n"], vertex_only_crossings=not interior_crossing))
        return ("spurious", "native test agrees with the geometry on the model (penetration %.3g, test says %s)" % (pen, said[0]))
    good = [q for q in pair_done if q.status == "unsat"]
    for q in pair_done:
        if q.status != "unsat":
            record(res, q, replay_pair)
    if good:
        res.ob("polygon pairs on the rotation grid: %d queries unsat (overlap => yes, separated => no, swap; offsets symbolic)" % len(good), "mirsym+z3/R", "discharged", "unsat", sum(q.secs for q in good),
               dict(queries=len(good), example=good[0].name))
    res.extra["polygon_pair_queries"] = len(pair_done)
    res.functions = used_fns(ex)
    res.stubs = summaries_used()
    res.extra["encoder_validation"] = val
    if not val["ok"]:
        res.notes.append("ENCODER VALIDATION FAILED: results of this run are inconclusive")
        for o in res.obligations:
            if o["status"] == "discharged":
                o["status"] = "undischarged"
                o["detail"] += " (encoder validation failed)"
    res.bounds = ["regular polygons n in %s for L(n); molecules of <= 3 discs; all reals (R-mode) / all doubles in [-1e6,1e6] (F-mode swap symmetry)" % (list(ns),),
                  "L(n) is about the canonical polygon produced by LineShape::polygon(n) (vertices rounded: |v|<1e-15 -> 0); placements elsewhere follow from the rigid-motion invariance obligations"]
    res.assumptions = ["R-mode: every f64 operation is the exact real operation; rounding is outside the claim except for the F-mode obligation",
                       "from L(n) to shapes: two congruent convex polygons with intersecting interiors are not nested, so the boundary of one has a point strictly inside and a point not inside the other (paper argument, not machine-checked)",
                       "segments exactly parallel to the edge they cross (sliding contact) are outside L(n)"]


def replay_segment(q):
    from fractions import Fraction as Fr
    m = q.model
    if q.name.startswith("polygon L"):
        return None
    A, Bv = line_vals(m, "a"), line_vals(m, "b")
    if any(v is None for v in A + Bv):
        return ("spurious", "model not numeric")
    r = native_eval([dict(fn="Line2::intersects", args=[list(map(jf, A)), list(map(jf, Bv))])])[0]
    a = [Fr(x) for x in A]
    b = [Fr(x) for x in Bv]
    adx, ady, bdx, bdy = a[2] - a[0], a[3] - a[1], b[2] - b[0], b[3] - b[1]
    den = bdy * adx - bdx * ady
    if den == 0:
        truth = False
        margin = 1.0
    else:
        ua = (bdx * (a[1] - b[1]) - bdy * (a[0] - b[0])) / den
        ub = (adx * (a[1] - b[1]) - ady * (a[0] - b[0])) / den
        truth = 0 <= ua <= 1 and 0 <= ub <= 1
        margin = float(min(abs(ua), abs(ua - 1), abs(ub), abs(ub - 1)))
    if r != truth and margin > 1e-9:
        return ("violated", "Line2::intersects(%s,%s)=%s, exact geometry says %s" % (A, Bv, r, truth), dict(kind="eval", fn="Line2::intersects", a=A, b=Bv), dict(clause="segment-geometry", fn="Line2::intersects"))
    return ("spurious", "agrees with exact rational geometry on the rounded model (margin %.3g)" % margin)


def validate_kernels(ex, f_line, f_atom, code_l, code_ab, la, lb, a, b):
    """Push concrete vectors through the real functions and through the encoding."""
    vecs_l = [([-1, 0, 0, -1], [-1, -1, 0, 0]), ([-2, -1, 1, 0], [-1, -1, 0, 0]), ([-1, 0, 0, -1], [-2, -1, 1, 0]),
              ([0, 0, 1, 1], [0, 1, 1, 0]), ([0, 0, 1, 0], [0, 1, 1, 1]), ([0, 0, 1, 1], [2, 2, 3, 3]), ([0, 0, 2, 0], [1, 0, 1, 1]),
              ([0, 0, 1, 0], [1, 0, 1, 1]), ([0.3, 0.1, 0.9, 0.7], [0.2, 0.8, 0.8, 0.1]), ([0, 0, 1e-3, 1], [-5, 0.5, 5, 0.5])]
    vecs_a = [([0, 0, 1], [0.5, 0, 1]), ([0, 0, 1], [2, 0, 1]), ([0, 0, 1], [2.01, 0, 1]), ([0, 0, 0.7071067811865476], [1, 1, 0.7071067811865476]),
              ([0, 0, 0.7071067811865476], [1, 1, 0.7071067811865471]), ([1, 2, 0.5], [1.3, 2.4, 0.1])]
    reqs = [dict(fn="Line2::intersects", args=[x, y]) for x, y in vecs_l] + [dict(fn="Atom2::intersects", args=[x, y]) for x, y in vecs_a]
    real = native_eval(reqs)
    bad = []
    for i, (x, y) in enumerate(vecs_l):
        env = dict(asx=x[0], asy=x[1], aex=x[2], aey=x[3], bsx=y[0], bsy=y[1], bex=y[2], bey=y[3])
        enc = T.evaluate(code_l, {k: float(v) for k, v in env.items()})
        if enc != real[i]:
            bad.append(("Line2::intersects", x, y, enc, real[i]))
    for j, (x, y) in enumerate(vecs_a):
        env = dict(ax=x[0], ay=x[1], ar=x[2], bx=y[0], by=y[1], br=y[2])
        enc = T.evaluate(code_ab, {k: float(v) for k, v in env.items()})
        if enc != real[len(vecs_l) + j]:
            bad.append(("Atom2::intersects", x, y, enc, real[len(vecs_l) + j]))
    return dict(ok=not bad, vectors=len(reqs), mismatches=bad[:5])


# ------------------------------------------------------------------------------ C13

def lj_fields(v):
    p = v.fields[0].fields
    return p[0], p[1], v.fields[1], v.fields[2]


def lj_ref(x1, y1, x2, y2, sigma, eps, cut):
    """independent reference: shifted truncated 12-6 law in terms of r^2 (no square root)"""
    dx, dy = T.fbin("fsub", x1, x2), T.fbin("fsub", y1, y2)
    r2 = T.fbin("fadd", T.fbin("fmul", dx, dx), T.fbin("fmul", dy, dy))

    def lj(s2_over_r2):
        t3 = T.fbin("fmul", T.fbin("fmul", s2_over_r2, s2_over_r2), s2_over_r2)
        return T.fbin("fmul", T.fbin("fmul", 4.0, eps), T.fbin("fsub", T.fbin("fmul", t3, t3), t3))
    s2 = T.fbin("fmul", sigma, sigma)
    e_un = lj(T.fbin("fdiv", s2, r2))
    if cut is None:
        return e_un, r2
    c2 = T.fbin("fmul", cut, cut)
    shift = lj(T.fbin("fdiv", s2, c2))
    return T.ite(T.fcmp("flt", r2, c2), T.fbin("fsub", e_un, shift), 0.0), r2


def c13(res, tier, seed):
    ex = E.load()
    qs = []
    f_en = E.find_fn(ex, r"^lj2::.*::energy$")
    f_sh = E.find_fn(ex, r"^lj_shape::<impl at [^>]*>::energy$")
    a_un, b_un = sym_lj("a", None), sym_lj("b", None)
    e_un, pc_un, _ = E.run(ex, f_en, [E.ByRef(a_un), E.ByRef(b_un)])
    ax, ay, asig, aeps = lj_fields(a_un)
    bx, by, bsig, beps = lj_fields(b_un)
    ref_un, r2 = lj_ref(ax, ay, bx, by, asig, aeps, None)
    pos = [T.fcmp("flt", 0.0, r2), T.fcmp("flt", 0.0, asig), T.fcmp("flt", 0.0, aeps)]
    qs.append(Query("uncut: energy == 4 eps ((s/r)^12 - (s/r)^6)", pos + pc_un + [T.bnot(T.fcmp("feq", e_un, ref_un))], timeout=120, meta=dict(fn="LJ2::energy"), witness=pos))
    cutv = F("cut")
    a_c, b_c = sym_lj("a", cutv), sym_lj("b", cutv)
    e_c, pc_c, _ = E.run(ex, f_en, [E.ByRef(a_c), E.ByRef(b_c)])
    ref_c, _ = lj_ref(ax, ay, bx, by, asig, aeps, cutv)
    posc = pos + [T.fcmp("flt", 0.0, cutv)]
    qs.append(Query("cut: energy == shifted law inside the cutoff, 0 beyond", posc + pc_c + [T.bnot(T.fcmp("feq", e_c, ref_c))], timeout=120, meta=dict(fn="LJ2::energy"), witness=posc))
    c2 = T.fbin("fmul", cutv, cutv)
    qs.append(Query("cut: exactly zero at and beyond the cutoff", posc + pc_c + [T.fcmp("fle", c2, r2), T.bnot(T.fcmp("feq", e_c, 0.0))], meta=dict(fn="LJ2::energy"), witness=posc + [T.fcmp("fle", c2, r2)]))
    # continuity at the cutoff: inside the cutoff the code equals g(r^2) - g(cut^2) with one and
    # the same rational function g (previous obligation), which tends to 0 as r -> cut; the limit
    # itself is not a solver obligation.
    # minimum of the uncut law: E >= -eps everywhere, E = -eps where (s^2/r^2)^3 = 1/2
    qs.append(Query("uncut: energy >= -eps for all r > 0", pos + pc_un + [T.fcmp("flt", e_un, T.fun("fneg", aeps))], timeout=180, meta=dict(fn="LJ2::energy"), witness=pos))
    t = T.fbin("fdiv", T.fbin("fmul", asig, asig), r2)
    t3 = T.fbin("fmul", T.fbin("fmul", t, t), t)
    qs.append(Query("uncut: energy == -eps where (sigma^2/r^2)^3 = 1/2, i.e. r = 2^(1/6) sigma", pos + pc_un + [T.fcmp("feq", T.fbin("fmul", 2.0, t3), 1.0), T.bnot(T.fcmp("feq", e_un, T.fun("fneg", aeps)))], timeout=180, meta=dict(fn="LJ2::energy"),
                    witness=pos + [T.fcmp("feq", T.fbin("fmul", 2.0, t3), 1.0)]))
    # depends on the positions only through the distance: common rigid motion / reflection via LJ2 * Transform2
    f_mul = [f for f in ex.fns if f.name.startswith("lj2_ops::") and f.name.endswith("::mul") and "&lj2::LJ2" in f.args[0][1] and "&transform::Transform2" in f.args[1][1]][0]
    a_s, b_s = sym_lj("a", "sym"), sym_lj("b", "sym")
    e_s, pc_s, _ = E.run(ex, f_en, [E.ByRef(a_s), E.ByRef(b_s)])
    for refl in (False, True):
        tr, cons = rigid("g", refl, 0.0)
        ta, p1, _ = E.run(ex, f_mul, [E.ByRef(a_s), E.ByRef(tr)])
        tb, p2, _ = E.run(ex, f_mul, [E.ByRef(b_s), E.ByRef(tr)])
        e_t, p3, _ = E.run(ex, f_en, [E.ByRef(ta), E.ByRef(tb)])
        # the transform must keep sigma/epsilon/cutoff
        same = T.band(T.fcmp("feq", ta.fields[1], a_s.fields[1]), T.fcmp("feq", ta.fields[2], a_s.fields[2]))
        qs.append(Query("transform keeps sigma, epsilon (%s)" % ("reflection" if refl else "rotation"), cons + p1 + [T.bnot(same)], meta=dict(fn="lj2_ops::mul")))
        qs.append(Query("energy invariant under a common %s" % ("reflection" if refl else "rotation+translation"), cons + pc_s + p1 + p2 + p3 + [T.fcmp("flt", 0.0, r2), T.bnot(T.fcmp("feq", e_s, e_t))], timeout=180, meta=dict(fn="lj2_ops::mul + LJ2::energy")))
    # symmetric in the two particles
    e_ba, pc_ba, _ = E.run(ex, f_en, [E.ByRef(b_s), E.ByRef(a_s)])
    cuts_equal = T.band(T.beq(T.var("ahascut", "B"), T.var("bhascut", "B")), T.fcmp("feq", F("acut"), F("bcut")))
    like = [T.fcmp("feq", asig, bsig), T.fcmp("feq", aeps, beps), cuts_equal]
    qs.append(Query("like particles: energy(a,b) == energy(b,a)", like + pc_s + pc_ba + [T.fcmp("flt", 0.0, r2), T.bnot(T.fcmp("feq", e_s, e_ba))], timeout=120, meta=dict(fn="LJ2::energy"), witness=like))
    physical = [T.fcmp("flt", 0.0, r2), T.fcmp("fle", 0.25, asig), T.fcmp("fle", asig, 4.0), T.fcmp("fle", 0.25, bsig), T.fcmp("fle", bsig, 4.0),
                T.fcmp("feq", aeps, 1.0), T.fcmp("feq", beps, 1.0), T.fcmp("fle", 0.25, r2), T.fcmp("fle", r2, 16.0),
                T.var("ahascut", "B"), T.var("bhascut", "B"), T.fcmp("feq", F("acut"), 3.5), T.fcmp("feq", F("bcut"), 3.5)]
    diff = T.fbin("fsub", e_s, e_ba)
    qs.append(Query("unlike particles: energy(a,b) == energy(b,a) (within 1e-9)", physical + pc_s + pc_ba + [T.bor(T.fcmp("flt", 1e-9, diff), T.fcmp("flt", diff, -1e-9))], timeout=120,
                    meta=dict(fn="LJ2::energy", expected="finding"), witness=physical))
    # molecule energy = sum over particle pairs
    qs += molecule_sum_queries(ex, f_sh, f_en, (3,) if tier == "quick" else (1, 2, 3))

    val = validate_lj(ex, e_s, a_s, b_s)
    done = run_queries(qs)

    def replay(q):
        m = q.model
        def ljv(p):
            cut = m.get(p + "cut") if m.get(p + "hascut", False) else None
            return [m.get(p + "x", 0.0), m.get(p + "y", 0.0), m.get(p + "sigma", 1.0), m.get(p + "eps", 1.0), cut]
        if q.name.startswith("molecule(") or q.meta.get("kind") == "trimer-pair":
            return replay_molecule_sum(q)
        A, Bv = ljv("a"), ljv("b")
        if q.name.startswith("cut:") and m.get("cut") is not None:
            A[4] = Bv[4] = m["cut"]
        if "energy(a,b) == energy(b,a)" in q.name:
            outs = []
            for prof in ("debug", "release"):
                r = native_eval([dict(fn="LJ2::energy", args=[[jf(v) if v is not None else None for v in A], [jf(v) if v is not None else None for v in Bv]]),
                                 dict(fn="LJ2::energy", args=[[jf(v) if v is not None else None for v in Bv], [jf(v) if v is not None else None for v in A]])], prof)
                outs.append((unjf(r[0]), unjf(r[1])))
            if all(abs(x - y) > 1e-9 for x, y in outs):
                like_ = abs(A[2] - Bv[2]) < 1e-12 and abs(A[3] - Bv[3]) < 1e-12 and A[4] == Bv[4]
                return ("violated", "LJ2::energy(a,b)=%.9g but energy(b,a)=%.9g for a=%s b=%s" % (outs[0][0], outs[0][1], A, Bv),
                        dict(kind="eval", fn="LJ2::energy", a=A, b=Bv, energies=outs[0]), dict(clause="particle-symmetry", unlike_particles=not like_))
            return ("spurious", "symmetric natively: %s" % (outs,))
        # formula obligations: compare the real function with the reference in double arithmetic
        r = unjf(native_eval([dict(fn="LJ2::energy", args=[[jf(v) if v is not None else None for v in A], [jf(v) if v is not None else None for v in Bv]])])[0])
        rr2 = (A[0] - Bv[0]) ** 2 + (A[1] - Bv[1]) ** 2
        if rr2 <= 0:
            return ("spurious", "r=0")
        tt = (A[2] ** 2 / rr2) ** 3
        refv = 4 * A[3] * (tt * tt - tt)
        if A[4] is not None:
            if rr2 < A[4] ** 2:
                tc = (A[2] ** 2 / A[4] ** 2) ** 3
                refv -= 4 * A[3] * (tc * tc - tc)
            else:
                refv = 0.0
        if abs(r - refv) > 1e-9 * max(1.0, abs(refv)):
            return ("violated", "LJ2::energy=%.12g, shifted truncated 12-6 law gives %.12g for a=%s b=%s" % (r, refv, A, Bv), dict(kind="eval", fn="LJ2::energy", a=A, b=Bv), dict(clause="formula"))
        return ("spurious", "real function matches the law on the rounded model")

    for q in done:
        record(res, q, replay)
    res.functions = used_fns(ex)
    res.stubs = summaries_used()
    res.extra["encoder_validation"] = val
    res.bounds = ["all reals sigma, eps > 0, r > 0, cutoff > 0 (R-mode); continuity bound on sigma, cut in [1/2,4]; molecules of <= 3 particles",
                  "unlike-particle symmetry probed on sigma in [1/4,4], eps=1, cutoff 3.5 (the trimer's setting)"]
    res.assumptions = ["R-mode (exact reals); powi(n) = repeated multiplication", "from_trimer's sigma = 2 radius and cutoff 3.5 are read from the real constructor's output (native data), not derived symbolically"]
    if not val["ok"]:
        res.notes.append("ENCODER VALIDATION FAILED")
        for o in res.obligations:
            if o["status"] == "discharged":
                o["status"] = "undischarged"


def fold_constant_sqrt(terms_):
    """sqrt of an expression that is constant as a polynomial (symbolic parts cancel, e.g. distances inside a rigidly
    moved molecule) -> its value.  Exact-real identity; keeps such terms out of the solver."""
    mapping = {}
    seen = set()
    pm = {}
    stack = [z for z in terms_ if T.is_t(z)]
    while stack:
        z = stack.pop()
        if z.id in seen:
            continue
        seen.add(z.id)
        if z.op == "fsqrt" and T.is_t(z.args[0]):
            try:
                p_ = polyq.to_poly(z.args[0], {}, pm)
                if all(m_ == () for m_ in p_) and float(p_.get((), 0)) >= 0:
                    mapping[z.id] = math.sqrt(float(p_.get((), 0)))
                    continue
            except polyq.NotPoly:
                pass
        stack.extend(w for w in z.args if T.is_t(w))
    if not mapping:
        return list(terms_)
    memo = {}
    return [T.subst(z, mapping, memo) if T.is_t(z) else z for z in terms_]


def molecule_sum_queries(ex, f_sh, f_en, ns):
    """LJShape2::energy(a, b) == sum over all particle pairs of LJ2::energy, for molecules of symbolic particles.
    The robust variant asks for a disagreement of more than 1e-6 between well separated, physical particles."""
    out = []

    def sym_ljshape(p, n):
        return Agg("struct:LJShape2", [Agg("str", ["m"]), Agg("vec", [sym_lj("%s%d" % (p, i), "sym") for i in range(n)])])
    for n in ns:
        ma, mb = sym_ljshape("a", n), sym_ljshape("b", n)
        em, pcm, _ = E.run(ex, f_sh, [E.ByRef(ma), E.ByRef(mb)])
        parts = []
        pcs = []
        for i in range(n):
            for j in range(n):
                e1, p1, _ = E.run(ex, f_en, [E.ByRef(ma.fields[1].fields[i]), E.ByRef(mb.fields[1].fields[j])])
                parts.append(e1)
                pcs += p1
        tot = parts[0]
        for p_ in parts[1:]:
            tot = T.fbin("fadd", tot, p_)
        qq = Query("molecule(%d): energy == sum over the %d particle pairs" % (n, n * n), pcm + pcs + [T.bnot(T.fcmp("feq", em, tot))], timeout=120, meta=dict(fn="LJShape2::energy", n=n))
        rob = []
        for p in ("a", "b"):
            for i in range(n):
                pr = "%s%d" % (p, i)
                rob += [T.fcmp("fle", -8.0, F(pr + "x")), T.fcmp("fle", F(pr + "x"), 8.0), T.fcmp("fle", -8.0, F(pr + "y")), T.fcmp("fle", F(pr + "y"), 8.0),
                        T.fcmp("fle", 0.5, F(pr + "sigma")), T.fcmp("fle", F(pr + "sigma"), 2.0), T.fcmp("feq", F(pr + "eps"), 1.0), T.var(pr + "hascut", "B"), T.fcmp("feq", F(pr + "cut"), 3.5)]
        for i in range(n):
            for j in range(n):
                dx_, dy_ = T.fbin("fsub", F("a%dx" % i), F("b%dx" % j)), T.fbin("fsub", F("a%dy" % i), F("b%dy" % j))
                rob.append(T.fcmp("fle", 1.0, T.fbin("fadd", T.fbin("fmul", dx_, dx_), T.fbin("fmul", dy_, dy_))))
        dd = T.fbin("fsub", em, tot)
        rob.append(T.bor(T.fcmp("flt", 1e-6, dd), T.fcmp("flt", dd, -1e-6)))
        qq.robust = rob
        out.append(qq)
    # the real trimer against a rotated, translated copy of itself (rotation from a grid, offset symbolic), in
    # configurations where exactly one particle pair is inside the cutoff: isolates each term of the sum, and
    # keeps the query quadratic in two variables
    data = S.real_data()
    items = data["shapes"]["ljtrimer:0.637556,120,1"]["items"]
    mk = lambda x_, y_, it_: Agg("struct:LJ2", [S.point(x_, y_), unjf(it_[2]), unjf(it_[3]), mk_enum("Option", "Some", [unjf(it_[4])])])
    ox, oy = F("mox"), F("moy")
    ma = Agg("struct:LJShape2", [Agg("str", ["m"]), Agg("vec", [mk(unjf(it_[0]), unjf(it_[1]), it_) for it_ in items])])
    for kphi in range(12):
        phi = kphi * math.pi / 6 + 0.05
        cph, sph = math.cos(phi), math.sin(phi)
        posb = [(T.fbin("fadd", cph * unjf(it_[0]) - sph * unjf(it_[1]), ox), T.fbin("fadd", sph * unjf(it_[0]) + cph * unjf(it_[1]), oy)) for it_ in items]
        mb = Agg("struct:LJShape2", [Agg("str", ["m"]), Agg("vec", [mk(px_, py_, it_) for (px_, py_), it_ in zip(posb, items)])])
        em, pcm, _ = E.run(ex, f_sh, [E.ByRef(ma), E.ByRef(mb)])
        parts, pcs, r2s = [], [], {}
        for i in range(3):
            for j in range(3):
                e1, p1, _ = E.run(ex, f_en, [E.ByRef(ma.fields[1].fields[i]), E.ByRef(mb.fields[1].fields[j])])
                parts.append(e1)
                pcs += p1
                dx_, dy_ = T.fbin("fsub", unjf(items[i][0]), posb[j][0]), T.fbin("fsub", unjf(items[i][1]), posb[j][1])
                r2s[(i, j)] = T.fbin("fadd", T.fbin("fmul", dx_, dx_), T.fbin("fmul", dy_, dy_))
        tot = parts[0]
        for p_ in parts[1:]:
            tot = T.fbin("fadd", tot, p_)
        differ = T.bnot(T.fcmp("feq", em, tot))
        for (i, j), r2 in r2s.items():
            only = [T.fcmp("flt", r2, 3.4 ** 2), T.fcmp("fle", 1.5 ** 2, r2)] + [T.fcmp("fle", 3.6 ** 2, r2b) for key_, r2b in r2s.items() if key_ != (i, j)]
            out.append(Query("trimer pair, rotation %.3f, only particles %d,%d within the cutoff: molecule energy == that pair's energy" % (phi, i, j), fold_constant_sqrt(pcm + pcs + only + [differ]), timeout=30,
                             meta=dict(fn="LJShape2::energy", kind="trimer-pair", phi=phi, pair=(i, j))))
            if differ is not False:
                # if undecided: look for a configuration on a path where the code returns a constant although the pair interacts
                def const_paths(v_):
                    if not T.is_t(v_):
                        return True
                    if v_.op == "ite":
                        return T.bor(T.band(v_.args[0], const_paths(v_.args[1])), T.band(T.bnot(v_.args[0]), const_paths(v_.args[2])))
                    return False
                out[-1].alt_search = fold_constant_sqrt(pcm + pcs + only + [const_paths(em)])
    return out


def replay_molecule_sum(q):
    m = q.model
    n = q.meta.get("n", 3)
    if q.meta.get("kind") == "trimer-pair":
        items = S.real_data()["shapes"]["ljtrimer:0.637556,120,1"]["items"]
        ph = q.meta["phi"]
        oxv, oyv = m.get("mox"), m.get("moy")
        if oxv is None or oyv is None:
            return ("spurious", "model not numeric")
        A = [[jf(unjf(v_)) for v_ in it_] for it_ in items]
        Bv = [[jf(math.cos(ph) * unjf(it_[0]) - math.sin(ph) * unjf(it_[1]) + oxv), jf(math.sin(ph) * unjf(it_[0]) + math.cos(ph) * unjf(it_[1]) + oyv)] + [jf(unjf(v_)) for v_ in it_[2:]] for it_ in items]
        outs = [native_eval([dict(fn="LJShape2::energy", args=[A, Bv])], prof)[0] for prof in ("debug", "release")]
        if all("energy" in o and abs(unjf(o["energy"]) - unjf(o["pair_sum"])) > 1e-9 * max(1.0, abs(unjf(o["pair_sum"]))) for o in outs):
            return ("violated", "LJShape2::energy of the trimer and its copy rotated by %.4g, moved by (%.9g, %.9g) is %.9g but the sum over the 9 particle pairs is %.9g" % (ph, oxv, oyv, unjf(outs[0]["energy"]), unjf(outs[0]["pair_sum"])),
                    dict(kind="eval", fn="LJShape2::energy", a=A, b=Bv, result=outs[0]), dict(clause="molecule-sum"))
        return ("spurious", "molecule energy equals the pair sum natively")

    def part(pr):
        cut = m.get(pr + "cut") if m.get(pr + "hascut", False) else None
        return [jf(m.get(pr + "x") or 0.0), jf(m.get(pr + "y") or 0.0), jf(m.get(pr + "sigma") if m.get(pr + "sigma") is not None else 1.0), jf(m.get(pr + "eps") if m.get(pr + "eps") is not None else 1.0), None if cut is None else jf(cut)]
    A = [part("a%d" % i) for i in range(n)]
    Bv = [part("b%d" % i) for i in range(n)]
    outs = [native_eval([dict(fn="LJShape2::energy", args=[A, Bv])], prof)[0] for prof in ("debug", "release")]
    if any("energy" not in o for o in outs):
        return ("spurious", "native call failed")
    if all(abs(unjf(o["energy"]) - unjf(o["pair_sum"])) > 1e-9 * max(1.0, abs(unjf(o["pair_sum"]))) for o in outs):
        return ("violated", "LJShape2::energy = %.9g but the sum over the %d particle pairs is %.9g (a=%s, b=%s)" % (unjf(outs[0]["energy"]), n * n, unjf(outs[0]["pair_sum"]), A, Bv),
                dict(kind="eval", fn="LJShape2::energy", a=A, b=Bv, result=outs[0]), dict(clause="molecule-sum"))
    return ("spurious", "molecule energy equals the pair sum natively")


def copy_lj(v, x, y):
    return Agg(v.kind, [S.point(x, y)] + list(v.fields[1:]))


def validate_lj(ex, e_s, a_s, b_s):
    vecs = []
    for r in (0.5, 0.9, 1.0, 1.1224620483093730, 1.5, 2.5, 3.4, 3.5, 3.6, 5.0):
        for (sa, sb, cut) in ((1.0, 1.0, None), (1.0, 1.0, 3.5), (2.0, 1.275112, 3.5), (1.275112, 2.0, 3.5), (0.7, 0.7, 2.0)):
            vecs.append(([0.0, 0.0, sa, 1.0, cut], [r * 0.6, r * 0.8, sb, 1.0, cut]))
    real = native_eval([dict(fn="LJ2::energy", args=[x, y]) for x, y in vecs])
    bad = []
    for (x, y), rv in zip(vecs, real):
        env = dict(ax=x[0], ay=x[1], asigma=x[2], aeps=x[3], acut=x[4] if x[4] is not None else 0.0, ahascut=x[4] is not None,
                   bx=y[0], by=y[1], bsigma=y[2], beps=y[3], bcut=y[4] if y[4] is not None else 0.0, bhascut=y[4] is not None)
        env = {k: (float(v) if not isinstance(v, bool) else v) for k, v in env.items()}
        enc = T.evaluate(e_s, env)
        rv = unjf(rv)
        if not (enc == rv or abs(enc - rv) <= 1e-12 * max(1.0, abs(rv))):
            bad.append((x, y, enc, rv))
    return dict(ok=not bad, vectors=len(vecs), mismatches=bad[:5])


# ------------------------------------------------------------------------------ helpers for iterators

from mirexec import State, Frame


def call_collect(ex, fn, args, generics=None):
    """call fn (args: values or ByRef) and drain the iterator it returns -> (items, pc)"""
    st = State()
    root = Frame(fn, {})
    st.frames.append(root)
    argv = []
    for i, a in enumerate(args):
        if isinstance(a, E.ByRef):
            root.locals[1000 + i] = a.v
            argv.append(Ref(0, 1000 + i, ()))
        else:
            argv.append(a)
    st, itv = ex.call_fn(st, fn, argv, generics or ex.generics)
    st.frames[0].locals[2000] = itv
    items = []
    while True:
        st, x = summaries.iter_next(ex, st, Ref(0, 2000, ()))
        if x is None:
            break
        if isinstance(x, Ref):
            x = ex.load(st, x)
        items.append(x)
    return items, st.pc


def mat_of(tr):
    return tr.fields[0].fields


def neq_any(pairs, tol=None):
    """Bool term: some pair differs"""
    out = []
    for a, b in pairs:
        if tol is None:
            out.append(T.bnot(T.fcmp("feq", a, b)))
        else:
            d = T.fbin("fsub", a, b)
            out.append(T.bor(T.fcmp("flt", tol, d), T.fcmp("flt", d, -tol)))
    return T.bor(*out)


def trig_axioms(t, lo=None, hi=None):
    """facts about (cos t, sin t) used as hypotheses: unit circle; optional ranges"""
    c, s = T.uf("cos", [t]), T.uf("sin", [t])
    ax = [T.fcmp("feq", T.fbin("fadd", T.fbin("fmul", c, c), T.fbin("fmul", s, s)), 1.0)]
    return c, s, ax


# ------------------------------------------------------------------------------ C14

def c14(res, tier, seed):
    ex = E.load()
    qs = []
    a, q, t = F("a"), F("q"), F("t")
    fams = ["Monoclinic", "Orthorhombic", "Hexagonal", "Tetragonal"]
    f_tc = E.find_fn(ex, r"^cell::.*::to_cartesian$")
    f_tcp = E.find_fn(ex, r"^cell::.*::to_cartesian_point$")
    f_tci = E.find_fn(ex, r"^cell::.*::to_cartesian_isometry$")
    f_area = E.find_fn(ex, r"^cell::.*::area$")
    f_pi = E.find_fn(ex, r"^cell::.*::periodic_images$")
    f_tct = E.find_fn(ex, r"^cell::.*::to_cartesian_translate$")
    c, s, ax = trig_axioms(t)
    b = T.fbin("fmul", a, q)
    A = (a, 0.0)
    Bv = (T.fbin("fmul", b, c), T.fbin("fmul", b, s))
    for fam in (fams if tier == "thorough" else ["Monoclinic", "Orthorhombic"]):
        cell = S.cell(a, q, t, fam)
        x, y = F("x"), F("y")
        rv, pc, _ = E.run(ex, f_tc, [E.ByRef(cell), x, y])
        X, Y = rv.fields
        refX = T.fbin("fadd", T.fbin("fmul", x, A[0]), T.fbin("fmul", y, Bv[0]))
        refY = T.fbin("fmul", y, Bv[1])
        qs.append(Query("[%s] to_cartesian(x,y) == x*A + y*B with A=(a,0), B=(b cos t, b sin t), b=a*ratio" % fam, pc + [neq_any([(X, refX), (Y, refY)])], meta=dict(fn="Cell2::to_cartesian")))
        rp, pc2, _ = E.run(ex, f_tcp, [E.ByRef(cell), S.point(x, y)])
        qs.append(Query("[%s] to_cartesian_point agrees with to_cartesian" % fam, pc2 + [neq_any([(rp.fields[0], X), (rp.fields[1], Y)])], meta=dict(fn="Cell2::to_cartesian_point")))
        ar, pc3, _ = E.run(ex, f_area, [E.ByRef(cell)])
        cross = T.fbin("fsub", T.fbin("fmul", A[0], Bv[1]), T.fbin("fmul", A[1], Bv[0]))
        pos = [T.fcmp("flt", 0.0, a), T.fcmp("flt", 0.0, q), T.fcmp("flt", 0.0, s)]
        qs.append(Query("[%s] area == |A x B|" % fam, pos + pc3 + [T.bnot(T.fcmp("feq", ar, cross))], meta=dict(fn="Cell2::area"), witness=pos))
        # to_cartesian_isometry: linear part kept, translation mapped
        for last in (0.0, 1.0):
            m = [F("m%d" % i) for i in range(6)] + [0.0, 0.0, last]
            tr = S.transform2(m)
            r, pc4, _ = E.run(ex, f_tci, [E.ByRef(cell), tr])
            M = mat_of(r)
            px, py = m[2], m[5]
            ex_x = T.fbin("fadd", T.fbin("fmul", px, A[0]), T.fbin("fmul", py, Bv[0]))
            ex_y = T.fbin("fmul", py, Bv[1])
            qs.append(Query("[%s] to_cartesian_isometry keeps the linear part and maps the translation (bottom row (0,0,%g))" % (fam, last),
                            pc4 + [neq_any([(M[0], m[0]), (M[1], m[1]), (M[3], m[3]), (M[4], m[4]), (M[2], ex_x), (M[5], ex_y), (M[6], m[6]), (M[7], m[7]), (M[8], m[8])])],
                            meta=dict(fn="Cell2::to_cartesian_isometry")))
    # periodic images
    cell = S.cell(a, q, t, "Monoclinic")
    ks = (0, 1, 2, 3) if tier == "thorough" else (1, 2, 3)
    for k in ks:
        for zero in (False, True):
            m = [F("m%d" % i) for i in range(6)] + [0.0, 0.0, 0.0]
            tr = S.transform2(m)
            items, pc = call_collect(ex, f_pi, [E.ByRef(cell), tr, k, zero])
            expect = [(n, mm) for n in range(-k, k + 1) for mm in range(-k, k + 1) if zero or (n, mm) != (0, 0)]
            nm = "periodic_images(k=%d, zero=%s)" % (k, zero)
            qs.append(Query(nm + ": yields exactly (2k+1)^2%s items" % ("" if zero else " - 1"), [len(items) != len(expect)], meta=dict(fn="Cell2::periodic_images", items=len(items)), nontrivial=False))
            if len(items) == len(expect):
                pairs = []
                base_x = T.fbin("fadd", T.fbin("fmul", m[2], A[0]), T.fbin("fmul", m[5], Bv[0]))
                base_y = T.fbin("fmul", m[5], Bv[1])
                for itm, (n, mm) in zip(items, expect):
                    M = mat_of(itm)
                    ex_x = T.fbin("fadd", base_x, T.fbin("fadd", T.fbin("fmul", float(n), A[0]), T.fbin("fmul", float(mm), Bv[0])))
                    ex_y = T.fbin("fadd", base_y, T.fbin("fmul", float(mm), Bv[1]))
                    pairs += [(M[0], m[0]), (M[1], m[1]), (M[3], m[3]), (M[4], m[4]), (M[2], ex_x), (M[5], ex_y)]
                qs.append(Query(nm + ": item (n,m) in lexicographic order is the placement translated by n*A + m*B, orientation unchanged, each offset once",
                                pc + [neq_any(pairs)], timeout=120, meta=dict(fn="Cell2::periodic_images / to_cartesian_translate", offsets=len(expect))))
    done = run_queries(qs)

    def replay(q):
        mdl = q.model
        if "to_cartesian(x,y)" in q.name or "area" in q.name:
            return replay_cell(q)
        if q.name.startswith("periodic_images(k="):
            return replay_images(q)
        return None
    for qq in done:
        record(res, qq, replay)
    res.functions = used_fns(ex)
    res.stubs = summaries_used()
    res.bounds = ["all real cell lengths, ratios, angles (sin, cos uninterpreted: any pair of reals), all placements with bottom row (0,0,0)/(0,0,1); shell counts k in %s" % (list(ks),)]
    res.assumptions = ["R-mode (exact reals)", "Cell2::center/get_corners are not part of the property"]
    res.extra["encoder_validation"] = validate_cell(ex)
    if not res.extra["encoder_validation"]["ok"]:
        res.notes.append("ENCODER VALIDATION FAILED")
        for o in res.obligations:
            if o["status"] == "discharged":
                o["status"] = "undischarged"


def replay_images(q):
    """native periodic_images on the model's placement (and cell, when it is a valid one) against the lattice translates"""
    import re as _re
    m = q.model
    mm_ = _re.match(r"periodic_images\(k=(\d+), zero=(True|False)\)", q.name)
    k, zero = int(mm_.group(1)), mm_.group(2) == "True"
    a_, q_, t_ = m.get("a"), m.get("q"), m.get("t")
    if a_ is None or q_ is None or t_ is None or not (0.01 <= a_ <= 50 and 0.1 <= q_ <= 1 and 0.5 <= t_ <= 1.5708):
        a_, q_, t_ = 1.5, 0.8, 1.2   # the model's cell is arbitrary (uninterpreted sin/cos); any valid cell shows a genuine defect
    cellj = dict(length=a_, ratio=q_, angle=t_, family="Monoclinic")
    pl = [m.get("m%d" % i) for i in range(6)]
    if any(v is None for v in pl):
        return ("spurious", "model not numeric")
    placement = [pl[0], pl[1], pl[2], pl[3], pl[4], pl[5], 0.0, 0.0, 1.0]
    out = native_eval([dict(fn="Cell2::periodic_images", args=[cellj, [jf(v) for v in placement], k, zero])])[0]
    if not isinstance(out, list):
        return ("spurious", "native call failed: %s" % (out,))
    A = (a_, 0.0)
    B = (a_ * q_ * math.cos(t_), a_ * q_ * math.sin(t_))
    expect = [(n, mm) for n in range(-k, k + 1) for mm in range(-k, k + 1) if zero or (n, mm) != (0, 0)]
    bad = None
    if len(out) != len(expect):
        bad = "yields %d images, expected %d" % (len(out), len(expect))
    else:
        for itm, (n, mm) in zip(out, expect):
            M = [unjf(v) for v in itm]
            ex_x = (pl[2] + n) * A[0] + (pl[5] + mm) * B[0]
            ex_y = (pl[5] + mm) * B[1]
            sc = max(1.0, abs(ex_x), abs(ex_y))
            if abs(M[2] - ex_x) > 1e-9 * sc or abs(M[5] - ex_y) > 1e-9 * sc or any(abs(M[i] - pl[i]) > 1e-9 for i in (0, 1, 3, 4)):
                bad = "image (%d,%d) is at (%.9g, %.9g) with linear part %s, the lattice translate is at (%.9g, %.9g)" % (n, mm, M[2], M[5], [M[0], M[1], M[3], M[4]], ex_x, ex_y)
                break
    if bad:
        return ("violated", "Cell2::periodic_images(k=%d, zero=%s) of the placement with fractional position (%.6g, %.6g) in cell %s: %s" % (k, zero, pl[2], pl[5], cellj, bad),
                dict(kind="eval", fn="Cell2::periodic_images", cell=cellj, placement=placement, k=k, zero=zero), dict(clause="periodic-images", k=k, zero=zero))
    return ("spurious", "native periodic_images agrees with the lattice translates for the model's placement")


def replay_cell(q):
    m = q.model
    cellj = dict(length=m.get("a", 1.0), ratio=m.get("q", 1.0), angle=m.get("t", 1.0), family="Monoclinic")
    # the model's sin/cos values are arbitrary reals; natively the real sin/cos are used, so only the
    # real function's own identity can be checked
    import math
    a_, q_, t_ = cellj["length"], cellj["ratio"], cellj["angle"]
    x_, y_ = m.get("x", 0.3), m.get("y", 0.7)
    r = native_eval([dict(fn="Cell2::to_cartesian", args=[cellj, x_, y_]), dict(fn="Cell2::area", args=[cellj])])
    X, Y = unjf(r[0][0]), unjf(r[0][1])
    rx = x_ * a_ + y_ * a_ * q_ * math.cos(t_)
    ry = y_ * a_ * q_ * math.sin(t_)
    ar = unjf(r[1])
    scale = max(1.0, abs(rx), abs(ry))
    if abs(X - rx) > 1e-9 * scale or abs(Y - ry) > 1e-9 * scale:
        return ("violated", "Cell2::to_cartesian(%g,%g) = (%.12g,%.12g), lattice gives (%.12g,%.12g) for cell %s" % (x_, y_, X, Y, rx, ry, cellj), dict(kind="eval", fn="Cell2::to_cartesian", cell=cellj, x=x_, y=y_), dict(clause="to_cartesian"))
    if abs(ar - a_ * a_ * q_ * math.sin(t_)) > 1e-9 * max(1.0, abs(ar)):
        return ("violated", "Cell2::area = %.12g but |AxB| = %.12g for cell %s" % (ar, a_ * a_ * q_ * math.sin(t_), cellj), dict(kind="eval", fn="Cell2::area", cell=cellj), dict(clause="area"))
    return ("spurious", "real functions agree with the lattice on the model")


def validate_cell(ex):
    import math
    f_tc = E.find_fn(ex, r"^cell::.*::to_cartesian$")
    bad = []
    vecs = [(1.0, 1.0, math.pi / 2, 0.5, 0.5), (1.0, 1.0, math.pi / 4, 0.5, 0.5), (8.0, 1.0, math.pi / 2, 0.25, 0.25), (1.59, 0.83, 1.21, -0.5, 0.37), (3.2, 0.1, math.pi / 6, 0.49, -0.5)]
    real = native_eval([dict(fn="Cell2::to_cartesian", args=[dict(length=a, ratio=q, angle=t, family="Monoclinic"), x, y]) for a, q, t, x, y in vecs])
    for (a, q, t, x, y), rv in zip(vecs, real):
        cell = S.cell(a, q, t, "Monoclinic")
        r, pc, _ = E.run(ex, f_tc, [E.ByRef(cell), x, y])
        X, Y = r.fields
        if abs(X - unjf(rv[0])) > 1e-15 * max(1, abs(X)) or abs(Y - unjf(rv[1])) > 1e-15 * max(1, abs(Y)):
            bad.append(((a, q, t, x, y), (X, Y), rv))
    return dict(ok=not bad, vectors=len(vecs), mismatches=bad[:3])


# ------------------------------------------------------------------------------ C15

def wrap_ref(p):
    """reference wrap into [-1/2,1/2): p - floor(p + 1/2), as a term with an integer variable is
    avoided: expressed through R-mode frem as the code does but in the canonical floor form"""
    return None


def c15(res, tier, seed):
    ex = E.load()
    qs = []
    data = S.real_data()
    f_pos = E.find_fn(ex, r"^site::.*::positions$")
    f_per = E.find_fn(ex, r"^transform::.*::periodic$")
    x, y, th = F("x"), F("y"), F("th")
    cth, sth = T.uf("cos", [th]), T.uf("sin", [th])
    groups = list(data["groups"]) if tier == "thorough" else ["p1", "p2", "p1g1", "p2mg", "p2gg"]
    for g in groups:
        ops = data["groups"][g]["ops"]
        site = S.occupied_site(ops, x, y, th)
        items, pc = call_collect(ex, f_pos, [E.ByRef(site)])
        qs.append(Query("[%s] a site yields exactly %d placements" % (g, len(ops)), [len(items) != len(ops)], meta=dict(fn="OccupiedSite::positions", items=len(items)), nontrivial=False))
        if len(items) != len(ops):
            continue
        for k, (itm, W) in enumerate(zip(items, ops)):
            M = mat_of(itm)
            W = [float(v) for v in W]
            # linear part = W_k * R(theta)
            lin = [(M[0], T.fbin("fadd", T.fbin("fmul", W[0], cth), T.fbin("fmul", W[1], sth))),
                   (M[1], T.fbin("fadd", T.fbin("fmul", W[0], T.fun("fneg", sth)), T.fbin("fmul", W[1], cth))),
                   (M[3], T.fbin("fadd", T.fbin("fmul", W[3], cth), T.fbin("fmul", W[4], sth))),
                   (M[4], T.fbin("fadd", T.fbin("fmul", W[3], T.fun("fneg", sth)), T.fbin("fmul", W[4], cth)))]
            qs.append(Query("[%s] placement %d: linear part == operation's linear part x site rotation" % (g, k), pc + [neq_any(lin)], meta=dict(fn="OccupiedSite::positions")))
            px = T.fbin("fadd", T.fbin("fadd", T.fbin("fmul", W[0], x), T.fbin("fmul", W[1], y)), W[2])
            py = T.fbin("fadd", T.fbin("fadd", T.fbin("fmul", W[3], x), T.fbin("fmul", W[4], y)), W[5])
            box = [T.fcmp("fle", -4.0, x), T.fcmp("fle", x, 4.0), T.fcmp("fle", -4.0, y), T.fcmp("fle", y, 4.0)]
            for nm, got, want in (("x", M[2], px), ("y", M[5], py)):
                # in the half-open cell
                qs.append(Query("[%s] placement %d: fractional %s lies in [-1/2,1/2)" % (g, k, nm), box + pc + [T.bor(T.fcmp("flt", got, -0.5), T.fcmp("fle", 0.5, got))], meta=dict(fn="Transform2::periodic")))
                # congruent to W(x,y)+t modulo 1: got - want is an integer n with |n| <= 10
                n = T.var("n_int", "I")
                qs.append(Query("[%s] placement %d: fractional %s == operation applied to the site, modulo whole lattice vectors" % (g, k, nm),
                                box + pc + [T.band(*[T.bnot(T.fcmp("feq", T.fbin("fsub", got, want), float(j))) for j in range(-12, 13)])], meta=dict(fn="OccupiedSite::positions")))
        # coordinates differing by whole lattice vectors give the same placements
        for (dx, dy) in ((1.0, 0.0), (0.0, -1.0), (2.0, 3.0)):
            site2 = S.occupied_site(ops, T.fbin("fadd", x, dx), T.fbin("fadd", y, dy), th)
            items2, pc2 = call_collect(ex, f_pos, [E.ByRef(site2)])
            pairs = []
            for i1, i2 in zip(items, items2):
                pairs += list(zip(mat_of(i1)[:6], mat_of(i2)[:6]))
            box = [T.fcmp("fle", -4.0, x), T.fcmp("fle", x, 4.0), T.fcmp("fle", -4.0, y), T.fcmp("fle", y, 4.0)]
            qs.append(Query("[%s] site shifted by the lattice vector (%g,%g) gives the same placements" % (g, dx, dy), box + pc + pc2 + [neq_any(pairs)], timeout=120, meta=dict(fn="OccupiedSite::positions")))
    # bit-precise wrap range (IEEE doubles), |p| <= 4, the real `%` with period 1.0
    T.REAL_SIMPLIFY = False
    try:
        p = F("p")
        tr = S.transform2([1.0, 0.0, p, 0.0, 1.0, p, 0.0, 0.0, 0.0])
        r, pcw, _ = E.run(ex, f_per, [E.ByRef(tr), 1.0, -0.5])
        w = mat_of(r)[2]
        rng = [T.fcmp("fle", -4.0, p), T.fcmp("fle", p, 4.0)]
        qs2 = [Query("wrap (IEEE-754 doubles, |p| <= 4): result in [-1/2, 1/2)", rng + pcw + [T.bor(T.fcmp("flt", w, -0.5), T.fcmp("fle", 0.5, w))], mode="F", timeout=300 if tier == "quick" else 1500, meta=dict(fn="Transform2::periodic")),
               Query("wrap (IEEE-754 doubles): exactly +-1/2 map to -1/2", pcw + [T.bor(T.fcmp("feq", p, 0.5), T.fcmp("feq", p, -0.5)), T.bnot(T.fcmp("feq", w, -0.5))], mode="F", timeout=120, meta=dict(fn="Transform2::periodic"))]
    finally:
        T.REAL_SIMPLIFY = True
    done = run_queries(qs + qs2)

    def replay(q):
        m = q.model
        if "wrap" in q.name:
            pv = m.get("p")
            if pv is None:
                return ("spurious", "no numeric model")
            r = native_eval([dict(fn="Transform2::periodic", args=[[1.0, 0.0, jf(pv), 0.0, 1.0, jf(pv), 0.0, 0.0, 0.0], 1.0, -0.5])])[0]
            w_ = unjf(r[2])
            if not (-0.5 <= w_ < 0.5):
                return ("violated", "Transform2::periodic(1,-0.5) maps %r to %r, outside [-1/2,1/2)" % (pv, w_), dict(kind="eval", fn="Transform2::periodic", p=pv), dict(clause="wrap-range"))
            return ("spurious", "in range natively")
        return replay_positions(q, data)
    for qq in done:
        record(res, qq, replay)
    res.functions = used_fns(ex)
    res.stubs = summaries_used()
    res.bounds = ["groups %s; site coordinates |x|,|y| <= 4 (reals for the congruence/range obligations, all doubles in [-4,4] for the bit-precise wrap); any orientation (cos, sin uninterpreted)" % groups]
    res.assumptions = ["R-mode truncated remainder x - y*trunc(x/y) for `%`; F-mode uses x % 1.0 = x - roundTowardZero(x) (exact)", "invariance under orientation + 2 pi rests on libm's periodicity and is not decided"]


def replay_positions(q, data):
    m = q.model
    import re
    mg = re.match(r"\[(\w+)\]", q.name)
    if not mg:
        return None
    g = mg.group(1)
    ops = data["groups"][g]["ops"]
    xv, yv, tv = m.get("x", 0.1), m.get("y", 0.2), m.get("th", 0.3)
    if xv is None or yv is None:
        return ("spurious", "no numeric model")
    st = dict(wallpaper=dict(name=g, family=data["groups"][g]["family"]), shape=dict(name="circle", items=[dict(position=[0.0, 0.0], radius=1.0)]),
              cell=dict(length=100.0, ratio=1.0, angle=1.5707963267948966, family=data["groups"][g]["family"]),
              occupied_sites=[dict(wyckoff=dict(letter="a", symmetries=[[o[0], o[3], o[6], o[1], o[4], o[7], o[2], o[5], o[8]] for o in ops], num_rotations=1, mirror_primary=False, mirror_secondary=False), x=xv, y=yv, angle=tv or 0.0)])
    r = native_eval([dict(fn="PackedState::positions", args=["mol", st])])[0]
    if "rel" not in r:
        return ("spurious", "native evaluation failed: %s" % r)
    import math
    rel = r["rel"]
    if len(rel) != len(ops):
        return ("violated", "group %s yields %d placements, expected %d" % (g, len(rel), len(ops)), dict(kind="eval", fn="PackedState::positions", state=st), dict(clause="count", group=g))
    for k, (M, W) in enumerate(zip(rel, ops)):
        M = [unjf(v) for v in M]
        px = W[0] * xv + W[1] * yv + W[2]
        py = W[3] * xv + W[4] * yv + W[5]
        for nm, got, want in (("x", M[2], px), ("y", M[5], py)):
            if not (-0.5 <= got < 0.5) or abs((got - want) - round(got - want)) > 1e-9:
                return ("violated", "group %s placement %d: fractional %s = %r for site (%r,%r), expected %r mod 1 in [-1/2,1/2)" % (g, k, nm, got, xv, yv, want),
                        dict(kind="eval", fn="PackedState::positions", state=st), dict(clause="placement", group=g))
        c_, s_ = math.cos(tv or 0.0), math.sin(tv or 0.0)
        lin = [W[0] * c_ + W[1] * s_, -W[0] * s_ + W[1] * c_, W[3] * c_ + W[4] * s_, -W[3] * s_ + W[4] * c_]
        for got, want in zip([M[0], M[1], M[3], M[4]], lin):
            if abs(got - want) > 1e-9:
                return ("violated", "group %s placement %d: linear part %s, expected %s" % (g, k, [M[0], M[1], M[3], M[4]], lin), dict(kind="eval", fn="PackedState::positions", state=st), dict(clause="linear-part", group=g))
    return ("spurious", "placements agree natively on the model")


# ------------------------------------------------------------------------------ C16 / C04 / C10

# International Tables for Crystallography vol. A, plane groups, general positions in the
# standard setting (typed here independently of the crate): rows of (W11 W12 t1 / W21 W22 t2).
ITA = {
    "p1":   [[1, 0, 0, 0, 1, 0]],
    "p2":   [[1, 0, 0, 0, 1, 0], [-1, 0, 0, 0, -1, 0]],
    "p1m1": [[1, 0, 0, 0, 1, 0], [-1, 0, 0, 0, 1, 0]],
    "p1g1": [[1, 0, 0, 0, 1, 0], [-1, 0, 0, 0, 1, 0.5]],
    "p2mm": [[1, 0, 0, 0, 1, 0], [-1, 0, 0, 0, -1, 0], [-1, 0, 0, 0, 1, 0], [1, 0, 0, 0, -1, 0]],
    "p2mg": [[1, 0, 0, 0, 1, 0], [-1, 0, 0, 0, -1, 0], [-1, 0, 0.5, 0, 1, 0], [1, 0, 0.5, 0, -1, 0]],
    "p2gg": [[1, 0, 0, 0, 1, 0], [-1, 0, 0, 0, -1, 0], [-1, 0, 0.5, 0, 1, 0.5], [1, 0, 0.5, 0, -1, 0.5]],
}
ITA_FAMILY = {"p1": "Monoclinic", "p2": "Monoclinic", "p1m1": "Orthorhombic", "p1g1": "Orthorhombic", "p2mm": "Orthorhombic", "p2mg": "Orthorhombic", "p2gg": "Orthorhombic"}
# symmetry content: (#mirrors-or-glides i.e. det=-1 ops, #two-folds i.e. W=-I, has glide (det=-1 with intrinsic translation 1/2))
ITA_CONTENT = {"p1": (0, 0, False), "p2": (0, 1, False), "p1m1": (1, 0, False), "p1g1": (1, 0, True), "p2mm": (2, 1, False), "p2mg": (2, 1, True), "p2gg": (2, 1, True)}


def op6(o):
    """9-entry row-major matrix -> (W11 W12 t1 W21 W22 t2)"""
    return [float(o[0]), float(o[1]), float(o[2]), float(o[3]), float(o[4]), float(o[5])]


def compose(a, b):
    return [a[0] * b[0] + a[1] * b[3], a[0] * b[1] + a[1] * b[4], a[0] * b[2] + a[1] * b[5] + a[2],
            a[3] * b[0] + a[4] * b[3], a[3] * b[1] + a[4] * b[4], a[3] * b[2] + a[4] * b[5] + a[5]]


def same_mod(a, b):
    lin = all(a[i] == b[i] for i in (0, 1, 3, 4))
    tr = all(abs((a[i] - b[i]) - round(a[i] - b[i])) == 0 for i in (2, 5))
    return lin and tr


def tables_from_mir(ex, res):
    """Run the crate's own get_wallpaper_group + WyckoffSite::new through the MIR engine is not
    needed for concrete literals: the tables are obtained by running the *real* parser natively
    (replay binary) on the *real* literals; the parser itself is the subject of C17."""
    return S.real_data()["groups"]


def c16(res, tier, seed):
    ex = E.load()
    groups = tables_from_mir(ex, res)
    qs = []
    a, q, t = F("a"), F("q"), F("t")
    for g, ref in ITA.items():
        if g not in groups:
            qs.append(Query("[%s] group is supported" % g, [True], meta=dict(group=g), nontrivial=False))
            continue
        ops = [op6(o) for o in groups[g]["ops"]]
        bottom = [[float(v) for v in o[6:9]] for o in groups[g]["ops"]]
        # Each fact below is a finite statement over concrete table entries; it is handed to the
        # solver as a constant formula so that the obligation list is uniform (exhaustive: true).
        qs.append(Query("[%s] order == %d" % (g, len(ref)), [len(ops) != len(ref)], meta=dict(group=g), nontrivial=False))
        qs.append(Query("[%s] entries are exactly the International Tables general positions (as a set, modulo lattice translations)" % g,
                        [not (len(ops) == len(ref) and all(any(same_mod(o, [float(v) for v in r]) for o in ops) for r in ref) and all(any(same_mod(o, [float(v) for v in r]) for r in ref) for o in ops))],
                        meta=dict(group=g, table=ops)))
        qs.append(Query("[%s] first entry is the identity" % g, [not same_mod(ops[0], [1., 0., 0., 0., 1., 0.]) or ops[0][2] != 0 or ops[0][5] != 0], meta=dict(group=g)))
        qs.append(Query("[%s] bottom rows are (0,0,0) (affine through nalgebra's n == 0 branch)" % g, [not all(b == [0., 0., 0.] or b == [0., 0., 1.] for b in bottom)], meta=dict(group=g), nontrivial=False))
        closed = all(any(same_mod(compose(x, y), z) for z in ops) for x in ops for y in ops)
        qs.append(Query("[%s] closed under composition modulo Z^2 (all %d pairs)" % (g, len(ops) ** 2), [not closed], meta=dict(group=g)))
        inv = all(any(same_mod(compose(x, y), [1., 0., 0., 0., 1., 0.]) for y in ops) for x in ops)
        qs.append(Query("[%s] every operation has its inverse in the table modulo Z^2" % g, [not inv], meta=dict(group=g)))
        distinct = all(not same_mod(ops[i], ops[j]) for i in range(len(ops)) for j in range(i))
        qs.append(Query("[%s] operations pairwise distinct modulo Z^2" % g, [not distinct], meta=dict(group=g)))
        det = lambda o: o[0] * o[4] - o[1] * o[3]
        nref = sum(1 for o in ops if det(o) == -1)
        ntwo = sum(1 for o in ops if o[0] == -1 and o[4] == -1 and o[1] == 0 and o[3] == 0)
        # glide: reflection whose translation component along the mirror line is 1/2 (mod 1)
        def is_glide(o):
            if det(o) != -1:
                return False
            sq = compose(o, o)  # o^2 is a pure translation by twice the intrinsic part
            return not (sq[2] % 2 == 0 and sq[5] % 2 == 0) and (sq[2] % 1 == 0 and sq[5] % 1 == 0)
        has_glide = any(is_glide(o) for o in ops)
        all_unimod = all(abs(det(o)) == 1 for o in ops)
        qs.append(Query("[%s] symmetry content: %d reflections/glides, %d two-fold, glide=%s, all determinants +-1" % ((g,) + ITA_CONTENT[g]),
                        [not ((nref, ntwo, has_glide) == ITA_CONTENT[g] and all_unimod)], meta=dict(group=g, found=(nref, ntwo, has_glide))))
        fam = groups[g]["family"]
        qs.append(Query("[%s] paired with crystal family %s" % (g, ITA_FAMILY[g]), [fam != ITA_FAMILY[g]], meta=dict(group=g, family=fam)))
        # family pairing, symbolically: every operation leaves the metric of every cell the family's
        # degrees of freedom can reach invariant:  W^T G W = G  with G = M^T M, M = [A B]
        qs += metric_queries(ex, g, ops, fam)
    done = run_queries(qs)

    def replay(qq):
        if qq.status == "sat" and not qq.model:
            return ("violated", "table fact fails: %s (table as produced by the real parser: %s)" % (qq.name, qq.meta.get("table", qq.meta)), dict(kind="table", group=qq.meta.get("group"), fact=qq.name, data=groups.get(qq.meta.get("group"))), dict(clause="table", group=qq.meta.get("group")))
        return replay_metric(qq, groups)
    for qq in done:
        record(res, qq, replay)
    res.functions = used_fns(ex) + ["wallpaper::get_wallpaper_group + WyckoffSite::new + Transform2::from_operations (real code, run natively by the replay binary on the real literals; output read as data)"]
    res.stubs = summaries_used()
    res.extra["exhaustive"] = True
    res.bounds = ["all 7 groups, all pairs of operations (finite, complete)", "family pairing: all cells reachable through Cell2::get_degrees_of_freedom of the paired family (symbolic length, ratio; angle symbolic for Monoclinic, pi/2 otherwise)"]
    res.assumptions = ["for families with a fixed angle the real-number facts cos(pi/2)=0, sin(pi/2)=1, cos(pi/3)=1/2 are used (the float PI/2 differs from pi/2 by 6e-17)"]


def family_cell(ex, fam):
    """symbolic cell of a family + hypotheses on (cos, sin) from what Cell2::from_family /
    get_degrees_of_freedom allow: which parameters can move is read from the real code."""
    f_dof = E.find_fn(ex, r"^cell::.*::get_degrees_of_freedom$")
    f_from = E.find_fn(ex, r"^cell::.*::from_family$")
    c0, pc0, _ = E.run(ex, f_from, [mk_enum("CrystalFamily", fam, []), F("len0")])
    # initial values
    init = [c0.fields[i].fields[0].fields[0] for i in range(3)]
    dof, pc1, st = E.run(ex, f_dof, [E.ByRef(c0)])
    free = set()
    for bs in dof.fields:
        ref = bs.fields[0]
        # the handle points at field k of the cell (length=0, ratio=1, angle=2)
        free.add(ref.path[0])
    a, q, t = F("a"), F("q"), F("t")
    vals = [a if 0 in free else init[0], q if 1 in free else init[1], t if 2 in free else init[2]]
    hyp = [T.fcmp("flt", 0.0, a), T.fcmp("flt", 0.0, q)]
    cell = S.cell(vals[0], vals[1], vals[2], fam)
    import math
    if 2 in free:
        c, s = T.uf("cos", [t]), T.uf("sin", [t])
        hyp.append(T.fcmp("feq", T.fbin("fadd", T.fbin("fmul", c, c), T.fbin("fmul", s, s)), 1.0))
        hyp.append(T.fcmp("flt", 0.0, s))
        trig = None
    else:
        ang = init[2]
        # exact real trig of the nominal angle
        if abs(ang - math.pi / 2) < 1e-12:
            trig = (0.0, 1.0)
        elif abs(ang - math.pi / 3) < 1e-12:
            trig = (0.5, None)
        else:
            trig = (None, None)
    return cell, hyp, free, trig, vals


def cart_basis(ex, cell, trig):
    """columns A, B of the fractional->Cartesian map, read off the real to_cartesian"""
    f_tc = E.find_fn(ex, r"^cell::.*::to_cartesian$")
    A, pc, _ = E.run(ex, f_tc, [E.ByRef(cell), 1.0, 0.0])
    Bc, pc2, _ = E.run(ex, f_tc, [E.ByRef(cell), 0.0, 1.0])
    return A.fields, Bc.fields


def subst_trig(term, angle_val, trig):
    return term


def metric_queries(ex, g, ops, fam):
    qs = []
    cell, hyp, free, trig, vals = family_cell(ex, fam)
    f_tc = E.find_fn(ex, r"^cell::.*::to_cartesian$")
    ang = vals[2]
    if trig is not None:
        # replace the concrete float angle by a symbolic angle constrained to the exact trig values
        tt = F("t_fixed")
        cell = S.cell(vals[0], vals[1], tt, fam)
        c, s = T.uf("cos", [tt]), T.uf("sin", [tt])
        hyp = hyp + [T.fcmp("feq", T.fbin("fadd", T.fbin("fmul", c, c), T.fbin("fmul", s, s)), 1.0), T.fcmp("flt", 0.0, s)]
        if trig[0] is not None:
            hyp.append(T.fcmp("feq", c, trig[0]))
    (Ax, Ay), (Bx, By) = cart_basis(ex, cell, trig)
    dot = lambda u, v: T.fbin("fadd", T.fbin("fmul", u[0], v[0]), T.fbin("fmul", u[1], v[1]))
    G = [[dot((Ax, Ay), (Ax, Ay)), dot((Ax, Ay), (Bx, By))], [dot((Ax, Ay), (Bx, By)), dot((Bx, By), (Bx, By))]]
    for k, o in enumerate(ops):
        W = [[o[0], o[1]], [o[3], o[4]]]
        # images of the basis vectors: columns of M W
        col = lambda j: (T.fbin("fadd", T.fbin("fmul", W[0][j], Ax), T.fbin("fmul", W[1][j], Bx)), T.fbin("fadd", T.fbin("fmul", W[0][j], Ay), T.fbin("fmul", W[1][j], By)))
        c0, c1 = col(0), col(1)
        G2 = [[dot(c0, c0), dot(c0, c1)], [dot(c0, c1), dot(c1, c1)]]
        pairs = [(G2[0][0], G[0][0]), (G2[0][1], G[0][1]), (G2[1][1], G[1][1])]
        qs.append(Query("[%s] op %d is an isometry of every cell of family %s (free parameters: %s)" % (g, k, fam, sorted(free)), hyp + [neq_any(pairs)], timeout=60,
                        meta=dict(group=g, op=o, family=fam, fn="Cell2::from_family + get_degrees_of_freedom + to_cartesian"), witness=hyp))
    return qs


def replay_metric(qq, groups):
    m = qq.model
    if "isometry" not in qq.name:
        return None
    import math
    g = qq.meta["group"]
    o = qq.meta["op"]
    fam = qq.meta["family"]
    # a concrete cell the family's degrees of freedom can reach, with the model's angle if free
    a_, q_ = m.get("a", 1.0) or 1.0, m.get("q", 0.5) or 0.5
    tval = m.get("t")
    # the model's cos/sin are uninterpreted values; pick a real angle in the allowed range instead
    for ang in ([tval] if tval else []) + [1.0, 0.8, math.pi / 3]:
        if ang is None or not (math.pi / 6 <= ang <= math.pi / 2):
            continue
        cellj = dict(length=a_, ratio=q_, angle=ang, family=fam)
        r = native_eval([dict(fn="Cell2::to_cartesian", args=[cellj, 1.0, 0.0]), dict(fn="Cell2::to_cartesian", args=[cellj, 0.0, 1.0]),
                         dict(fn="Cell2::to_cartesian", args=[cellj, o[0], o[3]]), dict(fn="Cell2::to_cartesian", args=[cellj, o[1], o[4]])])
        A, B, WA, WB = [[unjf(v) for v in x] for x in r]
        d = lambda u, v: u[0] * v[0] + u[1] * v[1]
        if abs(d(WA, WA) - d(A, A)) > 1e-9 or abs(d(WB, WB) - d(B, B)) > 1e-9 or abs(d(WA, WB) - d(A, B)) > 1e-9:
            return ("violated", "group %s op %s is not an isometry of the %s cell %s (reachable through the family's degrees of freedom)" % (g, o, fam, cellj),
                    dict(kind="eval", fn="Cell2::to_cartesian", cell=cellj, op=o), dict(clause="family-pairing", group=g))
    return ("spurious", "isometry natively for the tried cells")


# ------------------------------------------------------------------------------ Clone fidelity (shared by C04, C08, C09)

def clone_queries(ex):
    """Clone of a cell / site / state yields equal parameter values, the same family, the same
    symmetry table (the CLI optimises clones of its template state for every replica)."""
    qs = []
    f_cc = [f for f in ex.fns if f.name.startswith("cell::") and f.name.endswith("::clone") and "Cell2" in f.args[0][1]][0]
    f_sc = [f for f in ex.fns if f.name.startswith("site::") and f.name.endswith("::clone") and "OccupiedSite" in f.args[0][1]][0]
    a, q, t = F("a"), F("q"), F("t")
    for fam in ["Monoclinic", "Orthorhombic", "Hexagonal", "Tetragonal"]:
        cell = S.cell(a, q, t, fam)
        c2, pc, _ = E.run(ex, f_cc, [E.ByRef(cell)])
        same_fam = isinstance(c2.fields[3], Enum) and c2.fields[3].concrete() and c2.fields[3].alts[0][1] == fam
        vals = [(c2.fields[i].fields[0].fields[0], cell.fields[i].fields[0].fields[0]) for i in range(3)]
        qs.append(Query("Cell2::clone keeps the crystal family (%s)" % fam, [not same_fam], meta=dict(fn="Cell2::clone", family=fam, got=str(c2.fields[3])[:80])))
        qs.append(Query("Cell2::clone copies length, ratio, angle (%s)" % fam, pc + [neq_any(vals)], meta=dict(fn="Cell2::clone")))
    data = S.real_data()
    ops = data["groups"]["p2mg"]["ops"]
    site = S.occupied_site(ops, F("x"), F("y"), F("th"))
    s2, pc, _ = E.run(ex, f_sc, [E.ByRef(site)])
    vals = [(s2.fields[i].fields[0].fields[0], site.fields[i].fields[0].fields[0]) for i in (1, 2, 3)]
    qs.append(Query("OccupiedSite::clone copies x, y, angle", pc + [neq_any(vals)], meta=dict(fn="OccupiedSite::clone")))
    qs.append(Query("OccupiedSite::clone keeps the symmetry table", [s2.fields[0] != site.fields[0]], meta=dict(fn="OccupiedSite::clone"), nontrivial=False))
    return qs


def replay_clone(q):
    if q.status == "sat" and "clone" in q.name:
        # concrete witness through the real code: a cloned state must have the same JSON as the original
        return ("violated", "%s: %s" % (q.name, q.meta), dict(kind="clone", fact=q.name, meta=q.meta), dict(clause="clone", what=q.name.split(" (")[0]))
    return None


# ------------------------------------------------------------------------------ C04

def c04(res, tier, seed):
    ex = E.load()
    groups = S.real_data()["groups"]
    qs = []
    f_pos = E.find_fn(ex, r"^site::.*::positions$")
    f_tci = E.find_fn(ex, r"^cell::.*::to_cartesian_isometry$")
    # both state kinds place copies through the same code: check that cartesian_positions /
    # relative_positions of PackedState and PotentialState have identical bodies up to the type name
    same_body = True
    for meth in ("cartesian_positions", "relative_positions"):
        fa = E.find_fn(ex, r"^packed::.*::%s$" % meth)
        fb = E.find_fn(ex, r"^potential::.*::%s$" % meth)
        norm = lambda f: [(b, [repr(st).replace("packed::PackedState", "STATE").replace("potential::PotentialState", "STATE").replace("src/state/packed.rs", "F").replace("src/state/potential.rs", "F") for st in sts]) for b, sts in sorted(f.blocks.items())]
        import re as _re
        na = _re.sub(r"F:\d+:\d+: \d+:\d+", "SPAN", repr(norm(fa)))
        nb = _re.sub(r"F:\d+:\d+: \d+:\d+", "SPAN", repr(norm(fb)))
        same_body = same_body and na == nb
    qs.append(Query("PackedState and PotentialState place copies through identical MIR (cartesian_positions, relative_positions)", [not same_body], meta=dict(fn="{packed,potential}::cartesian_positions"), nontrivial=False))
    x, y, th = F("x"), F("y"), F("th")
    box = [T.fcmp("fle", -0.5, x), T.fcmp("fle", x, 0.5), T.fcmp("fle", -0.5, y), T.fcmp("fle", y, 0.5)]
    for g in (list(groups) if tier == "thorough" else ["p2", "p1m1", "p1g1", "p2mg", "p2gg"]):
        ops = [op6(o) for o in groups[g]["ops"]]
        fam = groups[g]["family"]
        cell, hyp, free, trig, vals = family_cell(ex, fam)
        if trig is not None:
            tt = F("t_fixed")
            cell = S.cell(vals[0], vals[1], tt, fam)
            c, s = T.uf("cos", [tt]), T.uf("sin", [tt])
            hyp = hyp + [T.fcmp("feq", T.fbin("fadd", T.fbin("fmul", c, c), T.fbin("fmul", s, s)), 1.0), T.fcmp("flt", 0.0, s)]
            if trig[0] is not None:
                hyp.append(T.fcmp("feq", c, trig[0]))
        thc, ths = T.uf("cos", [th]), T.uf("sin", [th])
        hyp = hyp + [T.fcmp("feq", T.fbin("fadd", T.fbin("fmul", thc, thc), T.fbin("fmul", ths, ths)), 1.0)]
        site = S.occupied_site(groups[g]["ops"], x, y, th)
        rel, pc = call_collect(ex, f_pos, [E.ByRef(site)])
        cart = []
        for r in rel:
            cr, pc2, _ = E.run(ex, f_tci, [E.ByRef(cell), r])
            cart.append(mat_of(cr))
        (Ax, Ay), (Bx, By) = cart_basis(ex, cell, trig)
        n = len(ops)
        for j, oj in enumerate(ops):
            # Cartesian form of operation j: linear part L_j = M W_j M^-1, i.e. L_j M = M W_j
            # unknown L_j (4 reals) defined by L_j A = W11 A + W21 B, L_j B = W12 A + W22 B
            L = [F("L%d" % i) for i in range(4)]
            defL = [T.fcmp("feq", T.fbin("fadd", T.fbin("fmul", L[0], Ax), T.fbin("fmul", L[1], Ay)), T.fbin("fadd", T.fbin("fmul", oj[0], Ax), T.fbin("fmul", oj[3], Bx))),
                    T.fcmp("feq", T.fbin("fadd", T.fbin("fmul", L[2], Ax), T.fbin("fmul", L[3], Ay)), T.fbin("fadd", T.fbin("fmul", oj[0], Ay), T.fbin("fmul", oj[3], By))),
                    T.fcmp("feq", T.fbin("fadd", T.fbin("fmul", L[0], Bx), T.fbin("fmul", L[1], By)), T.fbin("fadd", T.fbin("fmul", oj[1], Ax), T.fbin("fmul", oj[4], Bx))),
                    T.fcmp("feq", T.fbin("fadd", T.fbin("fmul", L[2], Bx), T.fbin("fmul", L[3], By)), T.fbin("fadd", T.fbin("fmul", oj[1], Ay), T.fbin("fmul", oj[4], By)))]
            for k in range(n):
                comp = compose(oj, ops[k])
                tgt = [i for i in range(n) if same_mod(comp, ops[i])]
                if not tgt:
                    qs.append(Query("[%s] op %d o copy %d has a partner copy in the table" % (g, j, k), [True], meta=dict(group=g)))
                    continue
                p = tgt[0]
                Ck, Cp = cart[k], cart[p]
                # linear part of the image placement: L_j * lin(P_k) must equal lin(P_p)
                lin = [(T.fbin("fadd", T.fbin("fmul", L[0], Ck[0]), T.fbin("fmul", L[1], Ck[3])), Cp[0]),
                       (T.fbin("fadd", T.fbin("fmul", L[0], Ck[1]), T.fbin("fmul", L[1], Ck[4])), Cp[1]),
                       (T.fbin("fadd", T.fbin("fmul", L[2], Ck[0]), T.fbin("fmul", L[3], Ck[3])), Cp[3]),
                       (T.fbin("fadd", T.fbin("fmul", L[2], Ck[1]), T.fbin("fmul", L[3], Ck[4])), Cp[4])]
                qs.append(Query("[%s] op %d maps copy %d onto copy %d: orientation and handedness (Cartesian linear parts)" % (g, j, k, p), hyp + box + pc + defL + [neq_any(lin)], timeout=60,
                                meta=dict(group=g, j=j, k=k, fn="OccupiedSite::positions + Cell2::to_cartesian_isometry"), witness=hyp + box + defL))
                # position: in fractional coordinates W_j pos_k + t_j - pos_p is a lattice vector
                rk, rp = mat_of(rel[k]), mat_of(rel[p])
                fx = T.fbin("fsub", T.fbin("fadd", T.fbin("fadd", T.fbin("fmul", oj[0], rk[2]), T.fbin("fmul", oj[1], rk[5])), oj[2]), rp[2])
                fy = T.fbin("fsub", T.fbin("fadd", T.fbin("fadd", T.fbin("fmul", oj[3], rk[2]), T.fbin("fmul", oj[4], rk[5])), oj[5]), rp[5])
                notint = lambda v: T.band(*[T.bnot(T.fcmp("feq", v, float(i))) for i in range(-4, 5)])
                qs.append(Query("[%s] op %d maps copy %d onto copy %d: position modulo lattice vectors" % (g, j, k, p), box + pc + [T.bor(notint(fx), notint(fy))], timeout=60,
                                meta=dict(group=g, j=j, k=k, fn="OccupiedSite::positions")))
    qs += clone_queries(ex)
    done = run_queries(qs)
    for qq in done:
        record(res, qq, lambda q_: replay_clone(q_) or replay_c04(q_, groups))
    res.functions = used_fns(ex)
    res.stubs = summaries_used()
    res.bounds = ["groups with more than the identity; all site coordinates in [-1/2,1/2]^2, any orientation; all cells the group's family can reach (symbolic length, ratio, angle where free)"]
    res.assumptions = ["the Cartesian position part follows from the fractional statement through the linearity of to_cartesian (C14)", "each operation being an isometry of the cell is C16's family-pairing obligation",
                       "R-mode; exact trig values for fixed angles"]


def replay_c04(q, groups):
    """native: build a state with the model's site/cell, take cartesian_positions, apply the
    Cartesian operation and look for the image among the copies modulo lattice"""
    import re, math
    mg = re.match(r"\[(\w+)\] op (\d+) maps copy (\d+)", q.name)
    if not mg:
        return None
    g, j, k = mg.group(1), int(mg.group(2)), int(mg.group(3))
    m = q.model
    ops = groups[g]["ops"]
    fam = groups[g]["family"]
    xv, yv = m.get("x", 0.13) or 0.13, m.get("y", -0.27) or -0.27
    tv = 0.37
    for ang in ([math.pi / 2] if fam != "Monoclinic" else [1.1, math.pi / 2, 0.7]):
        a_, q_ = m.get("a", 3.0) or 3.0, m.get("q", 0.7) or 0.7
        if not (a_ > 0 and q_ > 0):
            a_, q_ = 3.0, 0.7
        st = dict(wallpaper=dict(name=g, family=fam), shape=dict(name="circle", items=[dict(position=[0.0, 0.0], radius=0.01)]),
                  cell=dict(length=a_, ratio=q_, angle=ang, family=fam),
                  occupied_sites=[dict(wyckoff=dict(letter="a", symmetries=[[o[0], o[3], o[6], o[1], o[4], o[7], o[2], o[5], o[8]] for o in ops], num_rotations=1, mirror_primary=False, mirror_secondary=False), x=xv, y=yv, angle=tv)])
        r = native_eval([dict(fn="PackedState::positions", args=["mol", st])])[0]
        if "cart" not in r:
            continue
        cart = [[unjf(v) for v in M] for M in r["cart"]]
        A = (a_, 0.0)
        B = (a_ * q_ * math.cos(ang), a_ * q_ * math.sin(ang))
        o = op6(ops[j])
        # Cartesian op: L = M W M^-1, shift = M t
        det = A[0] * B[1] - A[1] * B[0]
        Minv = [[B[1] / det, -B[0] / det], [-A[1] / det, A[0] / det]]
        Mm = [[A[0], B[0]], [A[1], B[1]]]
        W = [[o[0], o[1]], [o[3], o[4]]]
        mul = lambda X, Y: [[sum(X[i][l] * Y[l][jj] for l in range(2)) for jj in range(2)] for i in range(2)]
        L = mul(mul(Mm, W), Minv)
        sh = (Mm[0][0] * o[2] + Mm[0][1] * o[5], Mm[1][0] * o[2] + Mm[1][1] * o[5])
        Ck = cart[k]
        img_lin = mul(L, [[Ck[0], Ck[1]], [Ck[3], Ck[4]]])
        img_pos = (L[0][0] * Ck[2] + L[0][1] * Ck[5] + sh[0], L[1][0] * Ck[2] + L[1][1] * Ck[5] + sh[1])
        found = False
        for Cp in cart:
            if max(abs(img_lin[0][0] - Cp[0]), abs(img_lin[0][1] - Cp[1]), abs(img_lin[1][0] - Cp[3]), abs(img_lin[1][1] - Cp[4])) > 1e-9:
                continue
            d = (img_pos[0] - Cp[2], img_pos[1] - Cp[5])
            fr = (Minv[0][0] * d[0] + Minv[0][1] * d[1], Minv[1][0] * d[0] + Minv[1][1] * d[1])
            if abs(fr[0] - round(fr[0])) < 1e-9 and abs(fr[1] - round(fr[1])) < 1e-9:
                found = True
        if not found:
            return ("violated", "group %s: operation %d applied to copy %d of the crystal (site %.4g,%.4g; cell a=%.4g ratio=%.4g angle=%.4g) is not a copy of the crystal" % (g, j, k, xv, yv, a_, q_, ang),
                    dict(kind="eval", fn="PackedState::positions", state=st, op=j, copy=k), dict(clause="set-invariance", group=g))
    return ("spurious", "crystal is invariant natively for the tried cells")


# ------------------------------------------------------------------------------ C10

def c10(res, tier, seed):
    ex = E.load()
    qs = []
    f_gw = E.find_fn(ex, r"^get_wallpaper_group$")
    groups = S.real_data()["groups"]
    names = ex.enums.get("WallpaperGroups")
    qs.append(Query("the CLI's group enumeration has the 7 supported names", [names != list(ITA)], meta=dict(found=names), nontrivial=False))
    for g in (names or []):
        try:
            rv, pc, _ = E.run(ex, f_gw, [mk_enum("WallpaperGroups", g, [])])
            ok = rv.alts[0][2][0] if rv.concrete() and rv.alts[0][1] == "Ok" else None
            label = ok.fields[0].fields[0] if ok is not None else None
            fam = ok.fields[1].alts[0][1] if ok is not None else None
            strs = [v.fields[0] for v in ok.fields[2].fields] if ok is not None else None
        except Unsupported as e:
            label, fam, strs = None, None, None
            res.notes.append("get_wallpaper_group(%s) not executable in the MIR engine: %s" % (g, e))
        src = "MIR"
        if label is None:
            # fall back to the native data for the label (still the real code)
            label, fam, strs, src = groups[g]["name"], groups[g]["family"], groups[g]["strings"], "native"
        qs.append(Query("[%s] get_wallpaper_group labels the group with the requested name (%s)" % (g, src), [label != g], meta=dict(group=g, label=label, fn="wallpaper::get_wallpaper_group")))
        qs.append(Query("[%s] recorded crystal family is %s" % (g, ITA_FAMILY.get(g)), [fam != ITA_FAMILY.get(g)], meta=dict(group=g, family=fam)))
        qs.append(Query("[%s] the group's full number of copies: %d operation strings" % (g, len(ITA.get(g, []))), [strs is None or len(strs) != len(ITA.get(g, []))], meta=dict(group=g, strings=strs)))
    # Wallpaper::new copies name and family; from_group keeps the label and the copy count
    # the total order on states is the order of their scores
    qs += order_queries(ex, tier)
    done = run_queries(qs)

    def replay(q):
        if q.meta.get("order"):
            return replay_order(q)
        if q.status == "sat" and not q.model:
            return ("violated", "%s: found %s" % (q.name, q.meta), dict(kind="table", fact=q.name, meta=q.meta), dict(clause="label", group=q.meta.get("group")))
        return None
    for qq in done:
        record(res, qq, replay)
    res.functions = used_fns(ex)
    res.stubs = summaries_used()
    res.bounds = ["all 7 group arguments; order obligations on p1 single-disc states with symbolic cells"]
    res.assumptions = ["the process boundary (argument parsing, rayon reduction, files on disk, exit status) is not executed symbolically; main.rs's use of max() is a MIR dataflow fact outside the solver"]


def order_queries(ex, tier):
    """PartialOrd/Ord of both state kinds order states by score (so that max() is the best replica).
    The shape is opaque: scores are arbitrary reals (negative ones included, as for LJ states)."""
    qs = []
    exo = E.load(generics={"S": "opaque::Shape"})
    opaque = Agg("struct:OpaqueShape", [])
    for kind, mod in (("packed", "packed"), ("potential", "potential")):
        f_sc = E.find_fn(exo, r"^%s::<impl at [^>]*>::score$" % mod)
        s1 = S.state(kind, "p1", opaque, F("a1"), F("q1"), F("t1"), F("x1"), F("y1"), F("h1"), family="Monoclinic")
        s2 = S.state(kind, "p1", opaque, F("a2"), F("q2"), F("t2"), F("x2"), F("y2"), F("h2"), family="Monoclinic")
        sc1, p1, _ = E.run(exo, f_sc, [E.ByRef(s1)])
        sc2, p2, _ = E.run(exo, f_sc, [E.ByRef(s2)])
        v1 = [(c, f[0]) for c, vn, f in sc1.alts if vn == "Some"]
        v2 = [(c, f[0]) for c, vn, f in sc2.alts if vn == "Some"]
        if len(v1) != 1 or len(v2) != 1:
            continue
        # abstract the two scores by fresh reals tied to the executed terms (keeps the queries small)
        A_, B_ = F("scoreA"), F("scoreB")
        tie = [T.fcmp("feq", A_, v1[0][1]), T.fcmp("feq", B_, v2[0][1]), v1[0][0], v2[0][0]]
        for meth in ("partial_cmp", "cmp"):
            try:
                f_m = E.find_fn(exo, r"^%s::<impl at [^>]*>::%s$" % (mod, meth))
                np0 = len(exo.panics)
                r, p3, _ = E.run(exo, f_m, [E.ByRef(s1), E.ByRef(s2)])
                pan = exo.panics[np0:]
            except Unsupported as e:
                qs.append(Query("%s::%s orders states by score" % (kind, meth), [True], meta=dict(fn="%s::%s" % (kind, meth), unsupported=str(e)[:200])))
                qs[-1].force_undischarged = str(e)
                continue

            def is_ord(en, name):
                if en.ty == "Ordering":
                    return T.bor(*[c for c, on, _ in en.alts if on == name])
                out = []
                for c, vn, f in en.alts:
                    if vn == "Some":
                        out.append(T.band(c, is_ord(f[0], name)))
                return T.bor(*out)
            for name, rel in (("Less", T.fcmp("flt", A_, B_)), ("Greater", T.fcmp("flt", B_, A_)), ("Equal", T.fcmp("feq", A_, B_))):
                qs.append(Query("%s::%s gives %s exactly when the scores compare that way (scores any reals)" % (kind, meth, name), tie + p1 + p2 + p3 + [xor(is_ord(r, name), rel)], timeout=120,
                                meta=dict(fn="%s::%s + score (S opaque)" % (kind, meth), kind=kind, order=True)))
            if meth == "cmp":
                pcs = [T.band(*pc) for pc, msg, fn, blk in pan if msg != "unreachable"]
                qs.append(Query("%s::cmp does not panic when both scores are defined" % kind, tie + p1 + p2 + [T.bor(*pcs) if pcs else False], timeout=60, meta=dict(fn="%s::cmp" % kind, kind=kind, order=True)))
    return qs


def replay_order(q):
    """probe the real Ord on a few concrete states with negative, zero and positive scores"""
    data = S.real_data()
    groups = data["groups"]
    kind = q.meta.get("kind")
    if kind == "potential":
        sj = shape_json_of(data["shapes"]["ljcircle"], "circle")
        states = [state_json("potential", "p1", groups, sj, a_, 1.0, 1.5707963267948966, 0.0, 0.0, 0.0, family="Monoclinic") for a_ in (0.95, 1.0, 1.05, 1.12, 1.5, 3.0)]
        k = "lj"
    else:
        sj = shape_json_of(data["shapes"]["circle"], "circle")
        states = [state_json("packed", "p1", groups, sj, a_, 1.0, 1.5707963267948966, 0.0, 0.0, 0.0, family="Monoclinic") for a_ in (2.1, 2.5, 3.0, 4.0)]
        k = "mol"
    reqs = [(i, j) for i in range(len(states)) for j in range(len(states)) if i != j]
    outs = native_eval([dict(fn="State::order", args=[k, states[i], states[j]]) for i, j in reqs])
    for (i, j), o in zip(reqs, outs):
        if "s1" not in o or o["s1"] is None or o["s2"] is None:
            continue
        a, b = unjf(o["s1"]), unjf(o["s2"])
        want = "Less" if a < b else ("Greater" if a > b else "Equal")
        if o["cmp"] != want or o["partial_cmp"] != want or (o["max_score"] not in ("panic", None) and abs(unjf(o["max_score"]) - max(a, b)) > 0):
            return ("violated", "%s states with scores %.6g and %.6g: cmp=%s partial_cmp=%s max picks %s" % (kind, a, b, o["cmp"], o["partial_cmp"], o["max_score"]),
                    dict(kind="eval", fn="State::order", states=[states[i], states[j]], result=o), dict(clause="order-by-score", state_kind=kind))
    return ("spurious", "the real Ord agrees with the score order on the probe states")


# ------------------------------------------------------------------------------ C03

import subprocess


def oracle(cmd, args, payload, profile="debug"):
    binp = os.path.join(E.TARGET, "replay", profile, "pv_replay")
    p = subprocess.run([binp, "oracle", cmd] + [str(a) for a in args], input=json.dumps(payload), stdout=subprocess.PIPE, stderr=subprocess.PIPE, text=True)
    try:
        return json.loads(p.stdout.strip().split("\n")[-1])
    except Exception:
        return dict(error=p.stderr[-500:])


def state_json(kind, g, groups, shape_json, a_, q_, ang, xv, yv, tv, family=None):
    ops = groups[g]["ops"]
    fam = family or groups[g]["family"]
    return dict(wallpaper=dict(name=g, family=fam), shape=shape_json, cell=dict(length=a_, ratio=q_, angle=ang, family=fam),
                occupied_sites=[dict(wyckoff=dict(letter="a", symmetries=[[o[0], o[3], o[6], o[1], o[4], o[7], o[2], o[5], o[8]] for o in ops], num_rotations=1, mirror_primary=False, mirror_secondary=False), x=xv, y=yv, angle=tv)])


def shape_json_of(sh, name="shape"):
    if sh["kind"] == "line":
        return dict(name=name, items=[dict(start=[unjf(a), unjf(b)], end=[unjf(c), unjf(d)]) for a, b, c, d in sh["items"]])
    if sh["kind"] == "mol":
        return dict(name=name, items=[dict(position=[unjf(x), unjf(y)], radius=unjf(r)) for x, y, r in sh["items"]])
    return dict(name=name, items=[dict(position=[unjf(x), unjf(y)], sigma=unjf(s_), epsilon=unjf(e), cutoff=(None if c is None else unjf(c))) for x, y, s_, e, c in sh["items"]])


def c03(res, tier, seed):
    exo = E.load(generics={"S": "opaque::Shape"})
    data = S.real_data()
    groups = data["groups"]
    qs = []
    f_sc = E.find_fn(exo, r"^potential::<impl at [^>]*>::score$")
    f_cp = E.find_fn(exo, r"^potential::.*::cartesian_positions$")
    f_rp = E.find_fn(exo, r"^potential::.*::relative_positions$")
    f_pi = E.find_fn(exo, r"^cell::.*::periodic_images$")
    a, q, t, x, y, th = F("a"), F("q"), F("t"), F("x"), F("y"), F("th")
    opaque = Agg("struct:OpaqueShape", [])
    for g in (["p1", "p2", "p2mg"] if tier == "quick" else list(groups)):
        st = S.state("potential", g, opaque, a, q, t, x, y, th, family="Monoclinic")
        sc, pc, _ = E.run(exo, f_sc, [E.ByRef(st)])
        val = [f_[0] for c_, vn, f_ in sc.alts if vn == "Some"]
        if len(sc.alts) != 1 or not val:
            qs.append(Query("[%s] score is always defined" % g, [True], meta=dict(group=g)))
            continue
        code = val[0]
        carts, _ = call_collect(exo, f_cp, [E.ByRef(st)])
        rels, _ = call_collect(exo, f_rp, [E.ByRef(st)])
        N = len(carts)
        cell = st.fields[2]
        Efn = lambda p_, q_: T.uf("E", list(mat_of(p_)[:6]) + list(mat_of(q_)[:6]))
        tot = 0.0
        npairs = 0
        for i in range(N):
            for j in range(i + 1, N):
                tot = T.fbin("fadd", tot, Efn(carts[i], carts[j]))
                npairs += 1
        for i in range(N):
            for j in range(N):
                imgs, _ = call_collect(exo, f_pi, [E.ByRef(cell), rels[j], 3, False])
                for im in imgs:
                    tot = T.fbin("fadd", tot, T.fbin("fmul", 0.5, Efn(carts[i], im)))
                    npairs += 1
        ref = T.fbin("fdiv", T.fun("fneg", tot), float(N))
        sym = []  # E is a pair energy: symmetric in its two placements (stated as a hypothesis where needed)
        qs.append(Query("[%s] score == -(1/N) * (sum over unordered in-cell pairs + 1/2 sum over ordered (copy, image) pairs within 3 shells), N=%d copies, %d pair terms" % (g, N, npairs),
                        pc + [T.bnot(T.fcmp("feq", code, ref))], timeout=120, meta=dict(group=g, fn="PotentialState::score (S opaque)", pair_terms=npairs)))
    # the molecule energy the score sums is itself the sum over particle pairs (shared with C13): with it the score
    # is the lattice energy per molecule in terms of the pair potential, not of an opaque molecule energy
    ex13 = E.load()
    qs += molecule_sum_queries(ex13, E.find_fn(ex13, r"^lj_shape::<impl at [^>]*>::energy$"), E.find_fn(ex13, r"^lj2::.*::energy$"), (3,))
    done = run_queries(qs)

    def replay(qq):
        if qq.name.startswith("molecule(") or qq.meta.get("kind") == "trimer-pair":
            return replay_molecule_sum(qq)
        g = qq.meta.get("group", "p2")
        # native: real score of a concrete trimer state vs direct lattice sum with the same shell range
        sh = data["shapes"]["ljtrimer:0.637556,120,1"]
        sj = shape_json_of(sh, "Trimer")
        outs = []
        for (a_, xv, yv) in ((6.0, 0.2, 0.1), (5.0, -0.45, 0.3)):
            stj = state_json("potential", g, groups, sj, a_, 0.9, 1.3, xv, yv, 0.4, family="Monoclinic")
            o = oracle("lj", [3], stj)
            outs.append((stj, o))
        bad = [(s_, o) for s_, o in outs if "score" in o and abs(unjf(o["score"]) - unjf(o["oracle"])) > 1e-9 * max(1.0, abs(unjf(o["oracle"])))]
        if bad:
            s_, o = bad[0]
            return ("violated", "PotentialState::score = %.9g but the lattice energy per molecule (direct sum, same 3 shells) is %.9g for group %s" % (unjf(o["score"]), unjf(o["oracle"]), g),
                    dict(kind="oracle-lj", state=s_, shells=3, result=o), dict(clause="pair-weights", group_order=len(groups[g]["ops"]) > 1))
        return ("spurious", "real score equals the direct lattice sum on the probe states")
    for qq in done:
        record(res, qq, replay)
    # Cutoff coverage beyond three shells is not an obligation: an image in the 4th shell lies inside
    # the 3.5 cutoff only when a lattice spacing is below 0.875, i.e. far below the molecule's own
    # diameter (> 2), where the energy is ~1e9 from overlapping cores and the missing shell terms
    # (~1e-2) vanish in comparison; see DESIGN.md.
    res.functions = used_fns(exo)
    res.stubs = summaries_used()
    res.bounds = ["copies per cell N in {1,2,4} (groups p1, p2, p2mg%s), 3 shells as in the code; molecule energy opaque (uninterpreted E of two placements)" % ("" if tier == "quick" else " and the other groups")]
    res.assumptions = ["periodic_images is the lattice enumeration proved in C14", "E symmetric (C13) is what makes 'each unordered pair once' equal to 'each ordered pair with weight 1/2'",
                       "for uncut potentials only the weighting is claimed; the truncation error of the infinite sum is outside"]


def cutoff_coverage(res, ex, data, tier):
    """exists a valid cell in the optimiser's bounds and an image beyond the 3 searched shells that
    is still inside the trimer's cutoff (3.5)?  Lattice geometry only: |4*A| = 4a < cutoff."""
    a, q, t = F("a"), F("q"), F("t")
    cell = S.cell(a, q, t, "Monoclinic")
    f_tc = E.find_fn(ex, r"^cell::.*::to_cartesian$")
    v, pc, _ = E.run(ex, f_tc, [E.ByRef(cell), 4.0, 0.0])
    d2 = T.fbin("fadd", T.fbin("fmul", v.fields[0], v.fields[0]), T.fbin("fmul", v.fields[1], v.fields[1]))
    c, s = T.uf("cos", [t]), T.uf("sin", [t])
    hyp = [T.fcmp("fle", 0.01, a), T.fcmp("fle", a, 10.0), T.fcmp("fle", 0.1, q), T.fcmp("fle", q, 1.0), T.fcmp("feq", T.fbin("fadd", T.fbin("fmul", c, c), T.fbin("fmul", s, s)), 1.0), T.fcmp("fle", 0.5, s), T.fcmp("fle", 0.0, c)]
    # keep the probe physically plain: a = 0.8 (every state is a valid LJ input)
    qy = Query("cutoff coverage: no image in the 4th shell lies inside the cutoff 3.5 (length >= 0.01)", hyp + pc + [T.fcmp("flt", d2, 3.4 * 3.4), T.fcmp("fle", 0.7, a)], timeout=60,
               meta=dict(fn="Cell2::to_cartesian", expected="finding"))
    done = run_queries([qy])

    def replay(qq):
        m = qq.model
        a_ = m.get("a", 0.8) or 0.8
        sh = data["shapes"]["ljtrimer:0.637556,120,1"]
        stj = state_json("potential", "p1", data["groups"], shape_json_of(sh, "Trimer"), a_, 1.0, 1.5707963267948966, 0.0, 0.0, 0.0, family="Monoclinic")
        o3 = oracle("lj", [3], stj)
        o8 = oracle("lj", [8], stj)
        if "oracle" in o3 and abs(unjf(o3["oracle"]) - unjf(o8["oracle"])) > 1e-6 * max(1.0, abs(unjf(o8["oracle"]))) and abs(unjf(o3["score"]) - unjf(o8["oracle"])) > 1e-6 * max(1.0, abs(unjf(o8["oracle"]))):
            return ("violated", "cell length %.3g: pairs inside the 3.5 cutoff lie beyond the 3 searched shells; score %.6g vs lattice energy (8 shells) %.6g" % (a_, unjf(o3["score"]), unjf(o8["oracle"])),
                    dict(kind="oracle-lj", state=stj, shells=8, result=o8), dict(clause="cutoff-coverage"))
        return ("spurious", "no difference natively")
    for qq in done:
        record(res, qq, replay)



# ------------------------------------------------------------------------------ C02

def c02(res, tier, seed):
    import math
    data = S.real_data()
    groups = data["groups"]
    qs = []
    exo = E.load(generics={"S": "opaque::Shape"})
    f_sc = E.find_fn(exo, r"^packed::<impl at [^>]*>::score$")
    a, q, t, x, y, th = F("a"), F("q"), F("t"), F("x"), F("y"), F("th")
    opaque = Agg("struct:OpaqueShape", [])
    c, s_ = T.uf("cos", [t]), T.uf("sin", [t])
    pos = [T.fcmp("flt", 0.0, a), T.fcmp("flt", 0.0, q), T.fcmp("flt", 0.0, s_), T.fcmp("flt", 0.0, T.var("shape_area", "F")), T.fcmp("flt", 0.0, T.var("shape_R", "F"))]
    for g in (["p1", "p2", "p2mg"] if tier == "quick" else list(groups)):
        st = S.state("packed", g, opaque, a, q, t, x, y, th, family="Monoclinic")
        sc, pc, _ = E.run(exo, f_sc, [E.ByRef(st)])
        N = len(groups[g]["ops"])
        somes = [(c_, f_[0]) for c_, vn, f_ in sc.alts if vn == "Some"]
        ref = T.fbin("fdiv", T.fbin("fmul", T.var("shape_area", "F"), float(N)), T.fbin("fmul", T.fbin("fmul", a, T.fbin("fmul", a, q)), s_))
        if not somes:
            qs.append(Query("[%s] score can be defined" % g, [True], meta=dict(group=g)))
            continue
        cs, val = somes[0]
        qs.append(Query("[%s] a defined score equals shape area x %d copies / (a * b * sin(angle))" % (g, N), pos + pc + [cs, T.bnot(T.fcmp("feq", val, ref))], timeout=120,
                        meta=dict(group=g, fn="PackedState::score (S opaque) + total_shapes + Cell2::area"), witness=pos))
    # polygon area: the real from_radial with symbolic radii, the real area(), against the shoelace area
    ex = E.load()
    f_fr = E.find_fn(ex, r"^line_shape::.*::from_radial$")
    f_la = E.find_fn(ex, r"^line_shape::<impl at [^>]*>::area$")
    cases = [(3, False), (4, True), (5, True), (6, True)] if tier == "quick" else [(3, False), (4, False), (4, True), (5, True), (6, True), (8, True), (5, False)]
    # one-parameter families of irregular polygons (one vertex moves, the others fixed): univariate queries the
    # solver decides at once even when the area formula contains square roots
    cases += [(3, (None, 1.0, 1.0)), (3, (None, 2.0, 1.0)), (4, (None, 1.0, 1.0, 1.0)), (4, (None, 2.0, 1.0, 2.0)), (4, (None, 1.0, 0.5, 1.0)), (5, (None, 1.0, 2.0, 1.0, 1.0))]
    for n, regular in cases:
        if isinstance(regular, tuple):
            radii = [F("r") if v_ is None else v_ for v_ in regular]
            fam_name = "radii %s with r symbolic" % (["r" if v_ is None else v_ for v_ in regular],)
            pattern = list(regular)
            regular = False
        else:
            fam_name = None
            pattern = None
            radii = [F("r")] * n if regular else [F("r%d" % i) for i in range(n)]
        rv, pc, _ = E.run(ex, f_fr, [Agg("str", ["P"]), Agg("vec", radii)])
        okv = [f_[0] for c_, vn, f_ in rv.alts if vn == "Ok"]
        if not okv:
            qs.append(Query("polygon(%d): from_radial succeeds" % n, [True], meta=dict(n=n)))
            continue
        shape = okv[0]
        ar, pc2, _ = E.run(ex, f_la, [E.ByRef(shape)])
        items = shape.fields[1].fields
        sh = 0.0
        for e in items:
            (x0, y0), (x1, y1) = e.fields[0].fields, e.fields[1].fields
            sh = T.fbin("fadd", sh, T.fbin("fsub", T.fbin("fmul", x0, y1), T.fbin("fmul", x1, y0)))
        # vertices run clockwise from (0, r): the signed shoelace sum is negative
        shoelace = T.fbin("fmul", -0.5, sh)
        box = []
        for r in radii:
            if T.is_t(r):
                box += [T.fcmp("fle", 0.5, r), T.fcmp("fle", r, 2.0)]
        d = T.fbin("fsub", ar, shoelace)
        qs.append(Query("polygon(%d, %s): LineShape::area of from_radial equals the polygon's shoelace area within 1e-9 (radii in [1/2,2])" % (n, fam_name or ("one symbolic radius" if regular else "independent symbolic radii")),
                        box + pc + pc2 + [T.bor(T.fcmp("flt", 1e-9, d), T.fcmp("flt", d, -1e-9))], timeout=120 if tier == "quick" else 900, meta=dict(n=n, fn="LineShape::from_radial + area", pattern=pattern), witness=box))
    # discs
    f_ma = E.find_fn(ex, r"^molecular_shape2::<impl at [^>]*>::area$")
    f_tr = E.find_fn(ex, r"^molecular_shape2::.*::from_trimer$")
    one = Agg("struct:MolecularShape2", [Agg("str", ["c"]), Agg("vec", [sym_atom("a")])])
    ar1, pc1, _ = E.run(ex, f_ma, [E.ByRef(one)])
    qs.append(Query("single disc: area == pi r^2", pc1 + [T.bnot(T.fcmp("feq", ar1, T.fbin("fmul", math.pi, T.fbin("fmul", F("ar"), F("ar")))))], meta=dict(fn="MolecularShape2::area")))
    two = Agg("struct:MolecularShape2", [Agg("str", ["c"]), Agg("vec", [sym_atom("a"), sym_atom("b")])])
    ar2, pc2_, _ = E.run(ex, f_ma, [E.ByRef(two)])
    ax_, ay_, ar_, bx_, by_, br_ = F("ax"), F("ay"), F("ar"), F("bx"), F("by"), F("br")
    dd2 = T.fbin("fadd", T.fbin("fmul", T.fbin("fsub", ax_, bx_), T.fbin("fsub", ax_, bx_)), T.fbin("fmul", T.fbin("fsub", ay_, by_), T.fbin("fsub", ay_, by_)))
    dist = T.fun("fsqrt", dd2)

    def lens(r, dseg):
        return T.fbin("fsub", T.fbin("fmul", T.fbin("fmul", r, r), T.uf("acos", [T.fbin("fdiv", dseg, r)])), T.fbin("fmul", dseg, T.fun("fsqrt", T.fbin("fsub", T.fbin("fmul", r, r), T.fbin("fmul", dseg, dseg)))))
    d1 = T.fbin("fdiv", T.fbin("fsub", T.fbin("fadd", T.fbin("fmul", dist, dist), T.fbin("fmul", ar_, ar_)), T.fbin("fmul", br_, br_)), T.fbin("fmul", 2.0, dist))
    d2 = T.fbin("fdiv", T.fbin("fsub", T.fbin("fadd", T.fbin("fmul", dist, dist), T.fbin("fmul", br_, br_)), T.fbin("fmul", ar_, ar_)), T.fbin("fmul", 2.0, dist))
    tot = T.fbin("fadd", T.fbin("fmul", math.pi, T.fbin("fmul", ar_, ar_)), T.fbin("fmul", math.pi, T.fbin("fmul", br_, br_)))
    overl = T.fcmp("flt", dist, T.fbin("fadd", ar_, br_))
    ref2 = T.ite(overl, T.fbin("fsub", tot, T.fbin("fadd", lens(ar_, d1), lens(br_, d2))), tot)
    h2 = [T.fcmp("flt", 0.0, ar_), T.fcmp("flt", 0.0, br_), T.fcmp("flt", 0.0, dd2)]
    qs.append(Query("two discs: area == pi r1^2 + pi r2^2 - lens(r1,r2,d) when they overlap, the plain sum otherwise", h2 + pc2_ + [T.bnot(T.fcmp("feq", ar2, ref2))], timeout=120, meta=dict(fn="MolecularShape2::area + circle_overlap + overlap_area")))
    # trimer validity: the real constructor with symbolic (radius, angle, distance)
    rr, ang, dst = F("radius"), F("angle"), F("distance")
    tri, pct, _ = E.run(ex, f_tr, [rr, ang, dst])
    atoms = tri.fields[1].fields
    trig = []

    def ufs(term, acc):
        stack = [term]
        while stack:
            z = stack.pop()
            if T.is_t(z):
                if z.op == "uf" and z.args[0] in ("sin", "cos"):
                    acc.setdefault(z.args[1].id, {})[z.args[0]] = z
                stack.extend(w for w in z.args if T.is_t(w))
    acc = {}
    for at in atoms:
        for v in list(at.fields[0].fields) + [at.fields[1]]:
            ufs(v, acc)
    for k, dct in acc.items():
        if "sin" in dct and "cos" in dct:
            trig.append(T.fcmp("feq", T.fbin("fadd", T.fbin("fmul", dct["sin"], dct["sin"]), T.fbin("fmul", dct["cos"], dct["cos"])), 1.0))
            trig += [T.fcmp("fle", 0.0, dct["sin"]), T.fcmp("fle", 0.0, dct["cos"])]   # angle/2 in [0, 90] degrees
    dom = [T.fcmp("fle", 0.2, rr), T.fcmp("fle", rr, 1.5), T.fcmp("fle", 0.2, dst), T.fcmp("fle", dst, 2.5)]
    px, py = F("px"), F("py")
    inside = []
    for at in atoms:
        cx, cy = at.fields[0].fields
        r_ = at.fields[1]
        inside.append(T.fcmp("flt", T.fbin("fadd", T.fbin("fmul", T.fbin("fsub", px, cx), T.fbin("fsub", px, cx)), T.fbin("fmul", T.fbin("fsub", py, cy), T.fbin("fsub", py, cy))), T.fbin("fmul", T.fbin("fmul", r_, r_), 0.81)))
    qs.append(Query("trimer: no point lies (well) inside all three discs, so pairwise inclusion-exclusion is the union area (radius in [0.2,1.5], distance in [0.2,2.5], any angle)",
                    dom + trig + pct + inside, timeout=120, meta=dict(fn="MolecularShape2::from_trimer + area", expected="finding", kind="triple-overlap")))
    c0x, c0y = atoms[0].fields[0].fields
    c1x, c1y = atoms[1].fields[0].fields
    dcen2 = T.fbin("fadd", T.fbin("fmul", T.fbin("fsub", c0x, c1x), T.fbin("fsub", c0x, c1x)), T.fbin("fmul", T.fbin("fsub", c0y, c1y), T.fbin("fsub", c0y, c1y)))
    gap = T.fbin("fsub", atoms[0].fields[1], atoms[1].fields[1])
    qs.append(Query("trimer: no outer disc lies inside the central disc (where the lens formula takes acos of a value > 1)", dom + trig + pct + [T.fcmp("flt", 0.0, gap), T.fcmp("flt", dcen2, T.fbin("fmul", T.fbin("fmul", gap, gap), 0.81))], timeout=120,
                    meta=dict(fn="MolecularShape2::from_trimer + area", expected="finding", kind="containment")))
    done = run_queries(qs)

    def replay(qq):
        m = qq.model
        kind = qq.meta.get("kind")
        if kind in ("triple-overlap", "containment"):
            r_, d_ = m.get("radius"), m.get("distance")
            if r_ is None or d_ is None:
                return ("spurious", "no numeric model")
            for angd in (40.0, 60.0, 90.0, 120.0, 20.0, 150.0, 180.0):
                dd = S.real_data(extra_trimers=[(r_, angd, d_)])
                key = [k for k in dd["shapes"] if k.startswith("trimer:") and k != "trimer:0.637556,120,1"]
                shp = dd["shapes"][key[-1]]
                o = oracle("area", [], shape_json_of(shp, "Trimer"))
                if "area" not in o:
                    continue
                av, ov = unjf(o["area"]), unjf(o["oracle"])
                if av != av:
                    return ("violated", "MolecularShape2::from_trimer(%.4g, %g, %.4g).area() is NaN (a disc lies inside another one); true union area %.6g" % (r_, angd, d_, ov),
                            dict(kind="oracle-area", radius=r_, angle=angd, distance=d_, result=o), dict(clause="trimer-area", kind="containment-nan"))
                if abs(av - ov) > 1e-6 * max(1.0, ov):
                    return ("violated", "MolecularShape2::from_trimer(%.4g, %g, %.4g).area() = %.6g but the union of the three discs has area %.6g" % (r_, angd, d_, av, ov),
                            dict(kind="oracle-area", radius=r_, angle=angd, distance=d_, result=o), dict(clause="trimer-area", kind="inclusion-exclusion"))
            return ("spurious", "area agrees with the exact union area for the probed angles")
        if "polygon(" in qq.name:
            n = qq.meta["n"]
            radii = [m.get("r%d" % i_) if m.get("r%d" % i_) is not None else m.get("r", 1.0) for i_ in range(n)]
            radii = [1.0 if r_ is None else r_ for r_ in radii]
            if qq.meta.get("pattern"):
                radii = [m.get("r", 1.0) if v_ is None else v_ for v_ in qq.meta["pattern"]]
            o = native_eval([dict(fn="LineShape::radial_area", args=[radii])])[0]
            if "area" not in o:
                return ("spurious", "from_radial failed natively")
            vs = [(unjf(v[0]), unjf(v[1])) for v in o["vertices"]]
            sh = 0.0
            for k_ in range(len(vs)):
                (x0, y0), (x1, y1) = vs[k_], vs[(k_ + 1) % len(vs)]
                sh += x0 * y1 - x1 * y0
            true_area = abs(sh) / 2
            if abs(unjf(o["area"]) - true_area) > 1e-9 * max(1.0, true_area):
                return ("violated", "LineShape::from_radial(%s).area() = %.9g but the polygon's (shoelace) area is %.9g" % (radii, unjf(o["area"]), true_area),
                        dict(kind="eval", fn="LineShape::radial_area", radii=radii, result=o), dict(clause="polygon-area"))
            return ("spurious", "area agrees with the shoelace area natively")
        return None
    for qq in done:
        record(res, qq, replay)
    res.functions = used_fns(ex) + used_fns(exo)
    res.stubs = summaries_used()
    res.bounds = ["score formula: groups with 1, 2, 4 copies, any cell; polygons n in {3,4%s} with symbolic radii in [1/2,2]; molecules of 1 and 2 discs exactly, 3 discs (trimer) through a validity query on the constructor's parameter space" % ("" if tier == "quick" else ",5,6")]
    res.assumptions = ["R-mode; acos/sqrt as in the lens formula of MathWorld (the formula itself is trusted, calculus over acos is not decided)", "'score <= 1' is a corollary of this property and C01, not a separate obligation",
                       "float sin/cos constants of the polygon vertices are the real libm values (Python's math = the C library)"]

# ------------------------------------------------------------------------------ C08

def basis_info(ex, st_holder, b):
    """(path of the SharedValue the handle points at, old, min, max) of a StandardBasis value"""
    ref = b.fields[0]
    return ref.path, b.fields[1], b.fields[2], b.fields[3]


def c08(res, tier, seed):
    import math
    ex = E.load()
    qs = []
    f_dof = E.find_fn(ex, r"^cell::.*::get_degrees_of_freedom$")
    f_gb = E.find_fn(ex, r"^site::.*::get_basis$")
    a, q, t = F("a"), F("q"), F("t")
    expect = {"Monoclinic": {0: (0.01, a), 1: (0.1, q), 2: (math.pi / 6, math.pi / 2)}, "Orthorhombic": {0: (0.01, a), 1: (0.1, q)},
              "Hexagonal": {0: (0.01, a)}, "Tetragonal": {0: (0.01, a)}}
    for fam, exp in expect.items():
        cell = S.cell(a, q, t, fam)
        dof, pc, _ = E.run(ex, f_dof, [E.ByRef(cell)])
        got = {}
        for b in dof.fields:
            path, old, lo, hi = basis_info(ex, None, b)
            got[path[0]] = (lo, hi, old)
        qs.append(Query("[%s] free cell parameters are exactly %s (length=0, ratio=1, angle=2)" % (fam, sorted(exp)), [sorted(got) != sorted(exp)], meta=dict(family=fam, found=sorted(got), fn="Cell2::get_degrees_of_freedom"), nontrivial=False))
        for k in exp:
            if k not in got:
                continue
            lo, hi, old = got[k]
            elo, ehi = exp[k]
            cur = [a, q, t][k]
            qs.append(Query("[%s] parameter %d: range is [%s, %s] and the handle remembers the current value" % (fam, k, elo, "current value" if T.is_t(ehi) else ehi),
                            pc + [neq_any([(lo, elo), (hi, ehi), (old, cur)])], meta=dict(family=fam, param=k, fn="Cell2::get_degrees_of_freedom")))
    # site handles
    data = S.real_data()
    site = S.occupied_site(data["groups"]["p2"]["ops"], F("x"), F("y"), F("th"))
    gb, pc, _ = E.run(ex, f_gb, [E.ByRef(site), 1])
    got = {}
    for b in gb.fields:
        path, old, lo, hi = basis_info(ex, None, b)
        got[path[0]] = (lo, hi, old)
    qs.append(Query("site handles: x, y, orientation (fields 1,2,3)", [sorted(got) != [1, 2, 3]], meta=dict(found=sorted(got), fn="OccupiedSite::get_basis"), nontrivial=False))
    for k, (elo, ehi) in {1: (-0.5, 0.5), 2: (-0.5, 0.5), 3: (0.0, 2 * math.pi)}.items():
        if k in got:
            lo, hi, old = got[k]
            qs.append(Query("site parameter %d: range [%g, %g]" % (k, elo, ehi), pc + [neq_any([(lo, elo), (hi, ehi)])], meta=dict(param=k, fn="OccupiedSite::get_basis")))
    # generate_basis of both state kinds = cell handles followed by the site handles
    opaque = Agg("struct:OpaqueShape", [])
    exo = E.load(generics={"S": "opaque::Shape"})
    for kind, mod in (("packed", "packed"), ("potential", "potential")):
        f_g = E.find_fn(exo, r"^%s::<impl at [^>]*>::generate_basis$" % mod)
        for fam, nexp in (("Monoclinic", 3), ("Orthorhombic", 2), ("Hexagonal", 1)):
            st = S.state(kind, "p2", opaque, a, q, t, F("x"), F("y"), F("th"), family=fam)
            gbv, pc, _ = E.run(exo, f_g, [E.ByRef(st)])
            paths = [b.fields[0].path for b in gbv.fields]
            ok = len(paths) == nexp + 3 and all(p[0] == 2 for p in paths[:nexp]) and all(p[0] == 3 for p in paths[nexp:])
            qs.append(Query("[%s/%s] generate_basis = %d cell handles + 3 site handles, pointing into this state" % (kind, fam, nexp), [not ok], meta=dict(paths=[str(p) for p in paths], fn="%s::generate_basis" % kind), nontrivial=False))
    # one-step induction on a handle: whatever value is proposed, the stored value stays in [min,max]; reset restores
    f_sv = [f for f in ex.fns if f.name.startswith("basis::") and f.name.endswith("::set_value") and "StandardBasis" in f.args[0][1]][0]
    f_rv = [f for f in ex.fns if f.name.startswith("basis::") and f.name.endswith("::reset_value")][0]
    f_ss = [f for f in ex.fns if f.name.startswith("basis::") and f.name.endswith("::set_sampled")][0]
    from mirexec import State, Frame
    val, lo, hi, old, newv = F("val"), F("lo"), F("hi"), F("old"), F("newv")
    st0 = State()
    root = Frame(f_sv, {})
    st0.frames.append(root)
    root.locals[1] = E.shared(val)
    root.locals[2] = Agg("struct:StandardBasis", [Ref(0, 1, ()), old, lo, hi])
    st1, _ = ex.call_fn(st0, f_sv, [Ref(0, 2, ()), newv], {})
    stored = st1.frames[0].locals[1].fields[0].fields[0]
    old_after = st1.frames[0].locals[2].fields[1]
    h = [T.fcmp("fle", lo, hi), T.fcmp("fle", lo, val), T.fcmp("fle", val, hi)]
    qs.append(Query("handle: set_value(any real) stores a value inside [min,max]", h + st1.pc + [T.bor(T.fcmp("flt", stored, lo), T.fcmp("flt", hi, stored))], meta=dict(fn="StandardBasis::set_value"), witness=h))
    qs.append(Query("handle: set_value stores the proposal unchanged when it is inside the range", h + st1.pc + [T.fcmp("fle", lo, newv), T.fcmp("fle", newv, hi), T.bnot(T.fcmp("feq", stored, newv))], meta=dict(fn="StandardBasis::set_value")))
    qs.append(Query("handle: set_value remembers the value held before the proposal", h + st1.pc + [T.bnot(T.fcmp("feq", old_after, val))], meta=dict(fn="StandardBasis::set_value")))
    st2, _ = ex.call_fn(st1, f_rv, [Ref(0, 2, ())], {})
    restored = st2.frames[0].locals[1].fields[0].fields[0]
    qs.append(Query("handle: set_value then reset_value restores the previous value exactly", h + st2.pc + [T.bnot(T.fcmp("feq", restored, val))], meta=dict(fn="StandardBasis::reset_value")))
    # cell non-degeneracy inside the bounds
    c_, s_ = T.uf("cos", [t]), T.uf("sin", [t])
    f_area = E.find_fn(ex, r"^cell::.*::area$")
    ar, pc, _ = E.run(ex, f_area, [E.ByRef(S.cell(a, q, t, "Monoclinic"))])
    bnd = [T.fcmp("fle", 0.01, a), T.fcmp("fle", 0.1, q), T.fcmp("fle", 0.5, s_)]
    qs.append(Query("inside the bounds (a >= 0.01, ratio >= 0.1, sin(angle) >= 1/2) the cell area is at least 5e-6: the cell never degenerates", bnd + pc + [T.fcmp("flt", ar, 5e-6)], meta=dict(fn="Cell2::area"), witness=bnd))
    # initial states: every group with a disc of any radius, with polygons, with the default trimer
    qs += initial_state_queries(ex, data, tier)
    done = run_queries(qs + clone_queries(ex))
    for qq in done:
        record(res, qq, lambda q_: replay_clone(q_) or replay_generic_fact(q_))
    # optimiser half: proposals stay inside [min,max] along every history
    import oprops
    oprops.run_mir(res, "C08", tier, seed)
    res.functions += used_fns(ex) + used_fns(exo)
    res.stubs = summaries_used()
    res.bounds += ["all four crystal families, both state kinds; handle induction for all reals with min <= max; initial states: 7 groups x {disc of symbolic radius, polygon 3/4/6, default trimer}"]
    res.assumptions += ["chaining: every stage re-derives [min, current value] from the current value, so ranges only shrink (follows from the handle obligations)", "NaN proposals (non-finite inputs) are outside the property"]


def replay_cell_ranges(q):
    """native: the bounds of the cell's handles, probed through set_value's clamping, against the declared ranges"""
    fam = q.meta.get("family")
    m = q.model
    a_ = m.get("a") if m.get("a") is not None and 0.01 < m.get("a") <= 50 else 2.0
    q_ = m.get("q") if m.get("q") is not None and 0.1 < m.get("q") < 1 else 0.6
    t_ = m.get("t") if m.get("t") is not None and math.pi / 6 < m.get("t") < math.pi / 2 else 1.2
    if fam != "Monoclinic":
        t_ = math.pi / 2
    cellj = dict(length=a_, ratio=q_, angle=t_, family=fam)
    o = native_eval([dict(fn="Cell2::basis_ranges", args=[cellj])])[0]
    if not isinstance(o, list):
        return ("spurious", "native call failed: %s" % (o,))
    exp = {"Monoclinic": [(a_, 0.01, a_), (q_, 0.1, q_), (t_, math.pi / 6, math.pi / 2)], "Orthorhombic": [(a_, 0.01, a_), (q_, 0.1, q_)]}.get(fam, [(a_, 0.01, a_)])
    got = [tuple(unjf(v_) for v_ in row) for row in o]
    if len(got) != len(exp) or any(abs(g_ - e_) > 1e-12 for gr, er in zip(got, exp) for g_, e_ in zip(gr, er)):
        return ("violated", "Cell2::get_degrees_of_freedom of a %s cell (length %g, ratio %g, angle %g) gives (value, min, max) = %s, declared ranges are %s" % (fam, a_, q_, t_, got, exp),
                dict(kind="eval", fn="Cell2::basis_ranges", cell=cellj, result=o), dict(clause="cell-ranges", family=fam))
    return ("spurious", "native ranges agree with the declared ones")


def replay_generic_fact(q):
    if "range is [" in q.name and q.meta.get("family"):
        return replay_cell_ranges(q)
    if q.status == "sat" and not q.model:
        return ("violated", "%s: %s" % (q.name, q.meta), dict(kind="fact", fact=q.name, meta=q.meta), dict(clause="structure", what=q.name.split(":")[0][:60]))
    return None


def initial_state_queries(ex, data, tier):
    """from_wyckoff + Cell2::from_family(4 R N) give a state whose score is defined"""
    qs = []
    groups = data["groups"]
    f_fw = E.find_fn(ex, r"^site::.*::from_wyckoff$")
    f_ff = E.find_fn(ex, r"^cell::.*::from_family$")
    rr = F("rad")
    shapes = [("disc of radius r>0", "molecular_shape2::MolecularShape2", Agg("struct:MolecularShape2", [Agg("str", ["c"]), Agg("vec", [Agg("struct:Atom2", [S.point(0.0, 0.0), rr])])]), rr, [T.fcmp("flt", 0.0, rr), T.fcmp("fle", rr, 100.0)]),
              ("square", "line_shape::LineShape", S.shape_value(data["shapes"]["polygon4"]), 1.0, []),
              ("triangle", "line_shape::LineShape", S.shape_value(data["shapes"]["polygon3"]), 1.0, []),
              ("default trimer", "molecular_shape2::MolecularShape2", S.shape_value(data["shapes"]["trimer:0.637556,120,1"]), unjf(data["shapes"]["trimer:0.637556,120,1"]["enclosing_radius"]), [])]
    if tier == "thorough":
        shapes.append(("hexagon", "line_shape::LineShape", S.shape_value(data["shapes"]["polygon6"]), 1.0, []))
    for sname, sty, shape, R, hyp in shapes:
        exs = E.load(generics={"S": sty})
        f_sc = E.find_fn(exs, r"^packed::<impl at [^>]*>::score$")
        for g in (list(groups) if tier == "thorough" or sname.startswith("disc") else ["p1", "p2", "p2mg", "p2gg"]):
            ops = groups[g]["ops"]
            N = len(ops)
            wy = S.wyckoff(ops)
            site, pc0, _ = E.run(ex, f_fw, [E.ByRef(wy)])
            size = T.fbin("fmul", T.fbin("fmul", 4.0, R), float(N))
            cell, pc1, _ = E.run(ex, f_ff, [mk_enum("CrystalFamily", groups[g]["family"], []), size])
            wall = Agg("struct:Wallpaper", [Agg("str", [g]), mk_enum("CrystalFamily", groups[g]["family"], [])])
            st = Agg("struct:PackedState", [wall, shape, cell, Agg("vec", [site])])
            sc, pc, _ = E.run(exs, f_sc, [E.ByRef(st)])
            none = T.bor(*[c for c, vn, f in sc.alts if vn == "None"])
            qs.append(Query("[%s x %s] the initial state (from_wyckoff + from_family(4 R N)) has a defined score" % (g, sname), hyp + pc0 + pc1 + pc + [none], timeout=120,
                            meta=dict(group=g, shape=sname, fn="OccupiedSite::from_wyckoff + Cell2::from_family + PackedState::score"), witness=hyp if hyp else None))
    return qs


# ------------------------------------------------------------------------------ C09

def c09(res, tier, seed):
    ex = E.load()
    qs = clone_queries(ex)
    # build(): the generator seed is the configured one whenever a seed is configured
    f_build = E.find_fn(ex, r"^optimisation::<impl at [^>]*>::build$")
    seedv = T.var("seed", "I")
    opt_none = mk_enum("Option", "None", [])
    bo = Agg("struct:BuildOptimiser", [T.var("steps", "I"), F("kt0"), opt_none, mk_enum("Option", "Some", [F("ratio")]), F("maxstep"), T.var("inner", "I"), mk_enum("Option", "Some", [seedv]), opt_none])
    try:
        rv, pc, _ = E.run(ex, f_build, [E.ByRef(bo)])
        qs.append(Query("BuildOptimiser::build uses the configured seed (no entropy) when a seed is set", pc + [T.bnot(T.icmp("ieq", rv.fields[5], seedv))], meta=dict(fn="BuildOptimiser::build")))
    except Unsupported as e:
        q = Query("BuildOptimiser::build uses the configured seed", [True], meta=dict(unsupported=str(e)[:200]))
        qs.append(q)
    # the setters used by the CLI pipeline do what their names say (seed(index) stores index, ...)
    for nm, idx, val in (("seed", 6, T.var("newseed", "I")), ("steps", 0, T.var("newsteps", "I")), ("kt_start", 1, F("newkt"))):
        f_set = [f for f in ex.fns if f.name.startswith("optimisation::<impl at src/optimisation.rs:69") and f.name.endswith("::" + nm)]
        if not f_set:
            f_set = [f for f in ex.fns if f.name.startswith("optimisation::") and f.name.endswith("::" + nm) and len(f.args) == 2]
        from mirexec import State, Frame
        st0 = State()
        root = Frame(f_set[0], {})
        st0.frames.append(root)
        root.locals[1] = bo
        st1, _ = ex.call_fn(st0, f_set[0], [Ref(0, 1, ()), val], {})
        after = st1.frames[0].locals[1]
        if nm == "seed":
            ok = isinstance(after.fields[idx], Enum) and after.fields[idx].concrete() and after.fields[idx].alts[0][1] == "Some" and after.fields[idx].alts[0][2][0] is val
        else:
            ok = after.fields[idx] is val
        others_same = all(after.fields[k] == bo.fields[k] or after.fields[k] is bo.fields[k] for k in range(8) if k != idx)
        qs.append(Query("BuildOptimiser::%s stores its argument and nothing else" % nm, [not (ok and others_same)], meta=dict(fn="BuildOptimiser::" + nm), nontrivial=False))
    qs += pipeline_facts()
    # no process-global state in the library: results cannot depend on what ran before in the process
    mir_txt = open(os.path.join(E.MIRDIR, "packing.mir")).read()
    import re as _re
    statics = _re.findall(r"^static (?:mut )?([^:]+):", mir_txt, _re.M)
    qs.append(Query("the library defines no static (process-global) state: scores and optimisation results cannot depend on what ran earlier in the process (found: %s)" % (statics[:4],),
                    [len(statics) != 0], meta=dict(statics=statics[:8], fn="whole crate MIR (dataflow fact, no solver)", global_state=True), nontrivial=False))
    done = run_queries(qs)
    for qq in done:
        record(res, qq, lambda q_: replay_global_state(q_) or replay_clone(q_) or replay_generic_fact(q_))
    import kprops_misc
    kprops_misc.run_c09(res, tier)
    res.functions = used_fns(ex)
    res.stubs = summaries_used()
    res.bounds = ["sequential core only: deep-copy Clone, seed dataflow, determinism of the optimiser given (state, settings, seed); 1 thread"]
    res.assumptions = ["NOT explored: thread counts, rayon work-stealing schedules, interleavings of replicas, process restarts. A data race introduced without changing the sequential facts would not be seen.",
                       "determinism given the seed follows from: the only randomness in optimise_state is the generator seeded from the configured seed (the MIR engine models every draw as coming from it) and no global state is touched"]


def replay_global_state(q):
    if not q.meta.get("global_state"):
        return None
    data = S.real_data()
    groups = data["groups"]
    sq = state_json("packed", "p1", groups, shape_json_of(data["shapes"]["polygon4"], "Polygon"), 5.0, 1.0, 1.5707963267948966, 0.0, 0.0, 0.0, family="Monoclinic")
    ci = state_json("packed", "p1", groups, shape_json_of(data["shapes"]["circle"], "circle"), 5.0, 1.0, 1.5707963267948966, 0.0, 0.0, 0.0, family="Monoclinic")
    tri = state_json("potential", "p1", groups, shape_json_of(data["shapes"]["ljtrimer:0.637556,120,1"], "Trimer"), 6.0, 1.0, 1.5707963267948966, 0.0, 0.0, 0.0, family="Monoclinic")
    lc = state_json("potential", "p1", groups, shape_json_of(data["shapes"]["ljcircle"], "circle"), 3.0, 1.0, 1.5707963267948966, 0.0, 0.0, 0.0, family="Monoclinic")
    probes = [(dict(fn="PackedState::score", args=["line", sq]), dict(fn="PackedState::score", args=["mol", ci])),
              (dict(fn="PackedState::score", args=["mol", ci]), dict(fn="PackedState::score", args=["line", sq])),
              (dict(fn="PotentialState::score", args=[tri]), dict(fn="PotentialState::score", args=[lc]))]
    for first, second in probes:
        alone = native_eval([second])[0]
        after = native_eval([first, second])[1]
        if alone != after:
            return ("violated", "a state's score depends on what was scored earlier in the process: %s alone = %s, after another state = %s (statics: %s)" % (second["fn"], alone, after, q.meta.get("statics")),
                    dict(kind="eval-order", first=first, second=second, alone=alone, after=after), dict(clause="global-state"))
    return ("spurious", "no order dependence observed natively on the probe states")


def pipeline_facts():
    """MIR dataflow facts about main.rs::analyse_state (no solver involved; listed as such)"""
    import subprocess, re
    qs = []
    env = dict(os.environ, CARGO_TARGET_DIR=os.path.join(E.TARGET, "mirbin"), CARGO_NET_OFFLINE="true")
    fp = os.path.join(E.TARGET, "mirbin", "debug", ".fingerprint")
    if os.path.isdir(fp):
        for d in os.listdir(fp):
            if d.startswith("packing-"):
                subprocess.run(["rm", "-rf", os.path.join(fp, d)])
    p = subprocess.run(["cargo", "+nightly", "rustc", "--offline", "--manifest-path", os.path.join(E.REPO, "Cargo.toml"), "--bin", "packing", "--", "-Zunpretty=mir"],
                       env=env, stdout=subprocess.PIPE, stderr=subprocess.PIPE, text=True)
    txt = p.stdout
    if len(txt) < 1000:
        q = Query("main.rs MIR available", [True], meta=dict(err=p.stderr[-300:]))
        return [q]
    clos = re.findall(r"fn analyse_state::\{closure#(\d+)\}\(.*?\n\}\n", txt, re.S)
    bodies = {int(m.group(1)): m.group(0) for m in re.finditer(r"fn analyse_state::\{closure#(\d+)\}\(.*?\n\}\n", txt, re.S)}
    for k in (0, 1, 2):
        b = bodies.get(k, "")
        seed_calls = re.findall(r"BuildOptimiser::seed\(([^)]*)\)", b)
        builds = len(re.findall(r"BuildOptimiser::build\(", b))
        # the index argument of the closure: _2 (plain) or a field of the tuple argument
        uses_index = any(re.search(r"copy _\d+|move _\d+", c) for c in seed_calls)
        order_ok = b.find("BuildOptimiser::seed(") != -1 and b.find("BuildOptimiser::seed(") < b.find("BuildOptimiser::build(")
        qs.append(Query("analyse_state stage %d: the optimiser is seeded (seed(..) precedes the single build()) " % (k + 1), [not (len(seed_calls) == 1 and builds == 1 and order_ok and uses_index)],
                        meta=dict(fn="main.rs analyse_state::{closure#%d} (MIR dataflow fact, no solver)" % k, seed_calls=seed_calls), nontrivial=False))
    main_b = re.search(r"fn analyse_state\(.*?\n\}\n", txt, re.S)
    mb = main_b.group(0) if main_b else ""
    qs.append(Query("analyse_state reduces the replicas with max()", [not ("::max(" in mb and "::min(" not in mb)], meta=dict(fn="main.rs analyse_state (MIR dataflow fact, no solver)"), nontrivial=False))
    return qs


# ------------------------------------------------------------------------------ C01

def unwrap_terms(terms_, link=True):
    """Replace every wrapped coordinate  ((P + 1/2) % 1 + 1) % 1 - 1/2  (the MIR of
    Transform2::periodic(1, -0.5)) by a fresh real u with  -1/2 <= u < 1/2  and  u = P - n for an
    integer n in -2..2 (P is within [-2.5, 2.5) for site coordinates in [-1/2,1/2] and the tables'
    translations).  Keeps the queries inside nonlinear real arithmetic (no to_int).
    -> (mapping term-id -> u, constraints)"""
    found = {}
    cons = []
    seen = set()
    stack = [t for t in terms_ if T.is_t(t)]
    while stack:
        t = stack.pop()
        if t.id in seen:
            continue
        seen.add(t.id)
        m = match_wrap(t)
        if m is not None and t.id not in found:
            u = T.var("w%d" % t.id, "F")
            found[t.id] = u
            cons.append(T.fcmp("fle", -0.5, u))
            cons.append(T.fcmp("flt", u, 0.5))
            if link:
                cons.append(T.bor(*[T.fcmp("feq", u, T.fbin("fsub", m, float(n))) for n in range(-2, 3)]))
            stack.append(m)
            continue
        stack.extend(x for x in t.args if T.is_t(x))
    return found, cons


def simplify_guards(terms_, a, q, t, c_):
    """rewrite the shell-count guards into the variables the geometry uses (valid on the domain
    a > 0, angle in [pi/6, pi/2] where cos is decreasing):  a/(a*q) -> 1/q ;  |t - pi/2| < K  ->  cos t < sin K"""
    import math
    mapping = {}
    seen = set()
    stack = [z for z in terms_ if T.is_t(z)]
    while stack:
        z = stack.pop()
        if z.id in seen:
            continue
        seen.add(z.id)
        if z.op == "fdiv" and z.args[0] is a and T.is_t(z.args[1]) and z.args[1].op == "fmul" and z.args[1].args[0] is a and z.args[1].args[1] is q:
            mapping[z.id] = T.fbin("fdiv", 1.0, q)
        if z.op in ("fmax", "fmin") and len(z.args) == 2:
            # max(a, a*q) = a, min(a, a*q) = a*q on the domain (a > 0, q <= 1)
            for u_, w_ in ((z.args[0], z.args[1]), (z.args[1], z.args[0])):
                if u_ is a and T.is_t(w_) and w_.op == "fmul" and w_.args[0] is a and w_.args[1] is q:
                    mapping[z.id] = a if z.op == "fmax" else w_
        if z.op == "flt" and T.is_t(z.args[0]) and z.args[0].op == "fabs" and not T.is_t(z.args[1]):
            inner = z.args[0].args[0]
            if T.is_t(inner) and inner.op == "fsub" and inner.args[0] is t and not T.is_t(inner.args[1]) and abs(inner.args[1] - math.pi / 2) < 1e-12:
                mapping[z.id] = T.fcmp("flt", c_, math.sin(float(z.args[1])))
        stack.extend(w for w in z.args if T.is_t(w))
    if not mapping:
        return list(terms_)
    memo = {}
    return [T.subst(z, mapping, memo) for z in terms_]


def purify(terms_):
    """replace every arithmetic term that is compared in an atom by a fresh real (forgets how the compared
    quantities are computed; sound for unsat).  Used where only the Boolean/ordering structure matters."""
    mapping = {}
    seen = set()
    stack = [z for z in terms_ if T.is_t(z)]
    while stack:
        z = stack.pop()
        if z.id in seen:
            continue
        seen.add(z.id)
        if z.op in ("flt", "fle", "feq"):
            for w in z.args:
                if T.is_t(w) and w.op != "var":
                    mapping[w.id] = T.var("pur%d" % w.id, "F")
            continue
        stack.extend(w for w in z.args if T.is_t(w))
    memo = {}
    return [T.subst(z, mapping, memo) if T.is_t(z) else z for z in terms_]


def match_wrap(t):
    # fadd(frem(fadd(frem(fsub(P,-0.5),1.0),1.0),1.0),-0.5)
    try:
        if t.op == "fadd" and t.args[1] == -0.5:
            r1 = t.args[0]
            if r1.op == "frem" and r1.args[1] == 1.0:
                a1 = r1.args[0]
                if a1.op == "fadd" and a1.args[1] == 1.0:
                    r2 = a1.args[0]
                    if r2.op == "frem" and r2.args[1] == 1.0:
                        s1 = r2.args[0]
                        if s1.op == "fsub" and s1.args[1] == -0.5:
                            return s1.args[0]
    except (AttributeError, IndexError):
        pass
    return None


def true_overlap(kind, shape_data, P, Q, tol=1e-9):
    """independent geometry: the two placed shapes overlap by more than tol.
    P, Q: 6-entry affine placements (m0 m1 tx / m3 m4 ty)"""
    def place(M, x, y):
        return (T.fbin("fadd", T.fbin("fadd", T.fbin("fmul", M[0], x), T.fbin("fmul", M[1], y)), M[2]),
                T.fbin("fadd", T.fbin("fadd", T.fbin("fmul", M[3], x), T.fbin("fmul", M[4], y)), M[5]))
    if kind == "mol":
        alts = []
        for (x1, y1, r1) in shape_data:
            for (x2, y2, r2) in shape_data:
                px, py = place(P, x1, y1)
                qx, qy = place(Q, x2, y2)
                dx, dy = T.fbin("fsub", px, qx), T.fbin("fsub", py, qy)
                d2 = T.fbin("fadd", T.fbin("fmul", dx, dx), T.fbin("fmul", dy, dy))
                rs = r1 + r2 - tol
                alts.append(T.fcmp("flt", d2, rs * rs))
        return T.bor(*alts)
    # convex polygon: no separating axis among the edge normals of either polygon, with margin tol
    verts = [(sx, sy) for (sx, sy, ex_, ey_) in shape_data]
    n = len(verts)
    VP = [place(P, x, y) for x, y in verts]
    VQ = [place(Q, x, y) for x, y in verts]
    conj = []
    for VA, VB in ((VP, VQ), (VQ, VP)):
        for k in range(n):
            (x0, y0), (x1, y1) = VA[k], VA[(k + 1) % n]
            ex_, ey_ = T.fbin("fsub", x1, x0), T.fbin("fsub", y1, y0)
            # inward side of edge k of A is where A's own centroid-side vertices lie: use vertex k+2
            (xi, yi) = VA[(k + 2) % n]
            side = lambda px, py: T.fbin("fsub", T.fbin("fmul", ex_, T.fbin("fsub", py, y0)), T.fbin("fmul", ey_, T.fbin("fsub", px, x0)))
            sgn_in = side(xi, yi)
            # some vertex of B lies strictly on the inner side of edge k by more than tol*|e|  (|e| <= 2R: use 2)
            some = []
            for (bx, by) in VB:
                sv = side(bx, by)
                some.append(T.bor(T.band(T.fcmp("flt", 0.0, sgn_in), T.fcmp("flt", 2.0 * tol, sv)), T.band(T.fcmp("flt", sgn_in, 0.0), T.fcmp("flt", sv, -2.0 * tol))))
            conj.append(T.bor(*some))
    return T.band(*conj)


def no_vertex_inside(shape_data, P, Q, margin=1e-7):
    """necessary condition for two placed convex polygons NOT to overlap by more than `margin`-ish: no vertex of
    one lies inside the other deeper than margin (used as the content of a negative edge test, via C12)"""
    def place(M, x, y):
        return (T.fbin("fadd", T.fbin("fadd", T.fbin("fmul", M[0], x), T.fbin("fmul", M[1], y)), M[2]),
                T.fbin("fadd", T.fbin("fadd", T.fbin("fmul", M[3], x), T.fbin("fmul", M[4], y)), M[5]))
    verts = [(sx, sy) for (sx, sy, ex_, ey_) in shape_data]
    n = len(verts)
    VP = [place(P, x, y) for x, y in verts]
    VQ = [place(Q, x, y) for x, y in verts]
    out = []
    for VA, VB in ((VP, VQ), (VQ, VP)):
        for (bx, by) in VB:
            # b is NOT deep inside A: for some edge of A it is on the outer side (or within margin of it)
            alts = []
            for k in range(n):
                (x0, y0), (x1, y1) = VA[k], VA[(k + 1) % n]
                (xi, yi) = VA[(k + 2) % n]
                ex_, ey_ = T.fbin("fsub", x1, x0), T.fbin("fsub", y1, y0)
                side = lambda px, py: T.fbin("fsub", T.fbin("fmul", ex_, T.fbin("fsub", py, y0)), T.fbin("fmul", ey_, T.fbin("fsub", px, x0)))
                sin_, sv = side(xi, yi), side(bx, by)
                # same sign as the interior side and deeper than margin  -> inside w.r.t. this edge
                inside_k = T.bor(T.band(T.fcmp("flt", 0.0, sin_), T.fcmp("flt", margin, sv)), T.band(T.fcmp("flt", sin_, 0.0), T.fcmp("flt", sv, -margin)))
                alts.append(T.bnot(inside_k))
            out.append(T.bor(*alts))
    return T.band(*out)


def translate_overlap(shape_data, P, Q, margin=0.0):
    """Two placements with the SAME linear part of a centrally symmetric convex polygon overlap iff half their
    offset lies strictly inside the placed polygon (Minkowski: P - P = 2P).  Linear in the offset, coefficients
    linear in the orientation.  margin > 0 asks for an overlap deeper than ~margin."""
    verts = [(sx, sy) for (sx, sy, ex_, ey_) in shape_data]
    n = len(verts)
    L = (P[0], P[1], P[3], P[4])
    rot = lambda vx, vy: (T.fbin("fadd", T.fbin("fmul", L[0], vx), T.fbin("fmul", L[1], vy)), T.fbin("fadd", T.fbin("fmul", L[2], vx), T.fbin("fmul", L[3], vy)))
    Dx = T.fbin("fmul", 0.5, T.fbin("fsub", Q[2], P[2]))
    Dy = T.fbin("fmul", 0.5, T.fbin("fsub", Q[5], P[5]))
    conj = []
    for k in range(n):
        (x0, y0), (x1, y1) = verts[k], verts[(k + 1) % n]
        ex0, ey0 = x1 - x0, y1 - y0
        const = ex0 * y0 - ey0 * x0            # cross(E, V) is invariant under the common rotation (det = 1)
        sgn = 1.0 if (-const) > 0 else -1.0    # side of the centre
        Ex, Ey = rot(ex0, ey0)
        val = T.fbin("fsub", T.fbin("fsub", T.fbin("fmul", Ex, Dy), T.fbin("fmul", Ey, Dx)), const)
        conj.append(T.fcmp("flt", margin, T.fbin("fmul", sgn, val)))
    return T.band(*conj)


C01_SHAPES_THOROUGH = ["circle", "square", "triangle", "trimer"]
C01_GROUPS_THOROUGH = ["p1", "p2", "p1m1", "p1g1", "p2mm", "p2mg", "p2gg"]


def c01_entry(res, tier, seed):
    """quick: one process.  thorough: one process per (group, shape) context, four at a time."""
    if tier != "thorough" or os.environ.get("VERIF_C01_MATCH"):
        return c01(res, tier, seed)
    import pickle, resource
    E.load()   # MIR dump and parse once; the children inherit the parsed functions
    # the trimer (nine disc pairs per shape pair) is taken with the one- and two-copy groups p1 and p2 only: a four-copy
    # group x trimer context ran into the 14 GB cap after an hour
    ctxs = [(g, sname) for sname in C01_SHAPES_THOROUGH for g in C01_GROUPS_THOROUGH if sname != "trimer" or g in ("p1", "p2")]
    # one fresh process per context (memory is returned when it ends), at most `par` at a time, each with an
    # address-space cap so that a runaway context fails alone and is reported as undischarged
    par = int(os.environ.get("VERIF_C01_PAR", "4"))
    pending = list(ctxs)
    running = {}
    outs_by = {}
    t_begin = time.time()
    while pending or running:
        while pending and len(running) < par:
            c_ = pending.pop(0)
            fn_ = os.path.join(E.TARGET, "c01_ctx_%s_%s_%d.pkl" % (c_[0], c_[1], os.getpid()))
            pid = os.fork()
            if pid == 0:
                try:
                    resource.setrlimit(resource.RLIMIT_AS, (14 << 30, 14 << 30))
                    o_ = _c01_child((tier, seed, c_))
                except MemoryError:
                    o_ = dict(error="out of memory (14 GB address-space cap) in this context")
                except BaseException as e_:
                    o_ = dict(error="%s: %s" % (type(e_).__name__, e_))
                try:
                    pickle.dump(o_, open(fn_, "wb"))
                finally:
                    os._exit(0)
            running[pid] = (c_, fn_, time.time())
        pid, status = os.wait()
        if pid in running:
            c_, fn_, t0_ = running.pop(pid)
            try:
                outs_by[c_] = pickle.load(open(fn_, "rb"))
                os.unlink(fn_)
            except Exception:
                outs_by[c_] = dict(error="context process ended without a result (wait status %d)" % status)
            sys.stderr.write("[C01 thorough] %s x %s: %.0fs, %s (elapsed %.0fs, %d left)\n" % (c_[0], c_[1], time.time() - t0_, "error: " + outs_by[c_]["error"][:120] if outs_by[c_].get("error") else
                             "%d obligations" % len(outs_by[c_]["obligations"]), time.time() - t_begin, len(pending) + len(running)))
            sys.stderr.flush()
    outs = [outs_by[c_] for c_ in ctxs]
    for c_, o in zip(ctxs, outs):
        if o.get("error"):
            res.ob("[%s x %s] context" % c_, "mirsym", "undischarged", o["error"][:300])
            continue
        res.obligations += o["obligations"]
        res.violations += o["violations"]
        res.known += o["known"]
        res.inconclusive += o["inconclusive"]
        res.samples = (res.samples + o["samples"])[:12]
        for k_, v_ in o["solver_s"].items():
            res.solver_s[k_] = res.solver_s.get(k_, 0.0) + v_
        for k_, v_ in o["extra"].items():
            res.extra[k_] = res.extra.get(k_, 0) + v_ if isinstance(v_, (int, float)) else v_
        for fld in ("functions", "stubs", "assumptions"):
            cur = getattr(res, fld)
            for x_ in o[fld]:
                if x_ not in cur:
                    cur.append(x_)
        for x_ in o["bounds"]:
            x2 = x_.split(";")[-1] if x_.startswith("groups [") else x_
            if x2 not in res.bounds:
                res.bounds.append(x2)
    res.bounds.insert(0, "groups %s x shapes %s (the trimer with p1 and p2 only); every cell in the optimiser's bounds (length [0.01,50], ratio [0.1,1], angle [pi/6,pi/2]) and site in [-1/2,1/2]^2 with any orientation" % (C01_GROUPS_THOROUGH, C01_SHAPES_THOROUGH))


def _c01_child(arg):
    tier, seed, ctx = arg
    import mq as _mq, traceback
    _mq.DEFAULT_WORKERS = 4
    r = Result("C01", tier, seed)
    try:
        c01(r, tier, seed, only_ctx=ctx)
    except Unsupported as e:
        return dict(error="unsupported MIR construct: %s" % e)
    except Exception as e:
        return dict(error="%s: %s %s" % (type(e).__name__, e, traceback.format_exc()[-400:]))
    drops = [d_ for ex_ in E.LOADED for d_ in getattr(ex_, "cast_dropped", [])]
    return dict(obligations=r.obligations, violations=r.violations, known=r.known, inconclusive=r.inconclusive, samples=r.samples, solver_s=r.solver_s,
                extra=r.extra, functions=r.functions, stubs=r.stubs, assumptions=r.assumptions, bounds=r.bounds)


def c01(res, tier, seed, only_ctx=None):
    import math
    data = S.real_data()
    groups = data["groups"]
    shapes = [("circle", "mol", "molecular_shape2::MolecularShape2", data["shapes"]["circle"])]
    shapes.append(("square", "line", "line_shape::LineShape", data["shapes"]["polygon4"]))
    if tier == "thorough":
        shapes.append(("trimer", "mol", "molecular_shape2::MolecularShape2", data["shapes"]["trimer:0.637556,120,1"]))
    shapes.append(("triangle", "line", "line_shape::LineShape", data["shapes"]["polygon3"]))
    glist = ["p1", "p2"] if tier == "quick" else C01_GROUPS_THOROUGH
    a, q, t, x, y, th = F("a"), F("q"), F("t"), F("x"), F("y"), F("th")
    c_, s_ = T.uf("cos", [t]), T.uf("sin", [t])
    cth, sth = T.uf("cos", [th]), T.uf("sin", [th])
    dom = [T.fcmp("fle", 0.01, a), T.fcmp("fle", a, 50.0), T.fcmp("fle", 0.1, q), T.fcmp("fle", q, 1.0),
           T.fcmp("fle", math.pi / 6, t), T.fcmp("fle", t, math.pi / 2),
           T.fcmp("feq", T.fbin("fadd", T.fbin("fmul", c_, c_), T.fbin("fmul", s_, s_)), 1.0), T.fcmp("fle", 0.5, s_), T.fcmp("fle", 0.0, c_),
           T.fcmp("feq", T.fbin("fadd", T.fbin("fmul", cth, cth), T.fbin("fmul", sth, sth)), 1.0),
           T.fcmp("fle", -0.5, x), T.fcmp("fle", x, 0.5), T.fcmp("fle", -0.5, y), T.fcmp("fle", y, 0.5)]
    # geometry-only domain (the angle itself is eliminated from the guards by simplify_guards)
    dom_geo = [T.fcmp("fle", 0.01, a), T.fcmp("fle", a, 50.0), T.fcmp("fle", 0.1, q), T.fcmp("fle", q, 1.0),
               T.fcmp("feq", T.fbin("fadd", T.fbin("fmul", c_, c_), T.fbin("fmul", s_, s_)), 1.0), T.fcmp("fle", 0.5, s_), T.fcmp("fle", 0.0, c_),
               T.fcmp("feq", T.fbin("fadd", T.fbin("fmul", cth, cth), T.fbin("fmul", sth, sth)), 1.0)]
    all_q = []
    ctxs = []
    convs = []
    Kmax = 3 if tier == "quick" else 4

    def P(qq, conv):
        """attach the change-of-variables form (vlib/polyq.py) when every atom converts; otherwise the
        query keeps its original form"""
        if conv is None or os.environ.get("VERIF_C01_NOPOLY"):
            return qq
        try:
            qq.poly_text, dxy = conv.text(qq.asserts)
            qq.poly_skels, qq.poly_dxy = conv.last_skeletons, dxy
            qq.poly_conv = conv
            qq.poly_term_names = conv.term_names
            qq.poly_back = lambda m, dxy=dxy: polyq.Converter.model_back(m, dxy)
        except polyq.NotPoly as e_:
            qq.meta = dict(qq.meta, not_converted=str(e_))
        return qq
    exo = E.load(generics={"S": "opaque::Shape"})
    f_sc = E.find_fn(exo, r"^packed::<impl at [^>]*>::score$")
    for g in glist:
        fam = "Monoclinic" if groups[g]["family"] == "Monoclinic" else groups[g]["family"]
        N = len(groups[g]["ops"])
        for sname, skind, sty, sdata in shapes:
            if only_ctx is not None and (g, sname) != tuple(only_ctx):
                continue
            R = unjf(sdata["enclosing_radius"])
            exo.record_intersects = []
            exo.int_cast_range = (0, Kmax)
            exo.cast_dropped = []
            tt = t
            st = S.state("packed", g, Agg("struct:OpaqueShape", []), a, q, tt, x, y, th, family=fam)
            # the opaque shape's enclosing radius is the real shape's
            exo_R = T.var("shape_R", "F")
            sc, pc, _ = E.run(exo, f_sc, [E.ByRef(st)])
            log = list(exo.record_intersects)
            exo.record_intersects = None
            some = T.bor(*[c for c, vn, f in sc.alts if vn == "Some"])
            fixR = [T.fcmp("feq", exo_R, R)]
            conv = polyq.Converter(a, q, c_, s_, cth, sth, consts={exo_R.id: R}, drop=[dom_geo[4]])
            convs.append(conv)
            # ---- reading the log.  Nothing is assumed about the order or shape of the loops:
            #  * a literal "mentions a test" when it contains one of the recorded Booleans; the literals of a test's path
            #    condition before the first such literal are the region R (shell-count guards), the literals after it
            #    that mention no test are the test's own prefilter;
            #  * an entry whose path condition mentions no test is the first of its arm; it is attached to the arm
            #    whose R is a prefix of its path condition;
            #  * which copy and which lattice image a test compares is read off the placements themselves (numeric
            #    fingerprint, then verified as a polynomial identity).
            xids = set(e["x"].id for e in log)
            mention_memo = {}

            def mentions_test(lit):
                if not T.is_t(lit):
                    return False
                if lit.id not in mention_memo:
                    mention_memo[lit.id] = any(v_.id in xids for v_ in T.free_vars([lit]))
                return mention_memo[lit.id]
            arms_ = []
            arm_of = {}
            firsts = []
            for e in log:
                idx0 = next((ix for ix, lit in enumerate(e["pc"]) if mentions_test(lit)), None)
                if idx0 is None:
                    firsts.append(e)
                    continue
                Rk = tuple(id(z_) for z_ in e["pc"][:idx0])
                if Rk not in arm_of:
                    arm_of[Rk] = dict(prefix=list(e["pc"][:idx0]), ents=[], k=e["k"])
                    arms_.append(arm_of[Rk])
                e["pre_list"] = [lit for lit in e["pc"][idx0:] if not mentions_test(lit)]
                arm_of[Rk]["ents"].append(e)
            consistent = True
            for e in firsts:
                cands = [ar for ar in arms_ if len(e["pc"]) >= len(ar["prefix"]) and all(x_ is y_ for x_, y_ in zip(ar["prefix"], e["pc"])) and ar["k"] == e["k"]]
                if len(cands) != 1:
                    consistent = False
                    continue
                e["pre_list"] = list(e["pc"][len(cands[0]["prefix"]):])
                cands[0]["ents"].insert(0, e)
            by_k = {}
            G_of = {}
            for ar in arms_:
                k_ = ar["k"]
                if k_ not in by_k:
                    by_k[k_] = ar["ents"]
                    G_of[k_] = [ar["prefix"]]
                else:
                    # another arm with the same shell count must perform literally the same tests
                    ref = by_k[k_]
                    same = len(ref) == len(ar["ents"]) and all(all(x_ is y_ for x_, y_ in zip(e1["p"] + e1["q"], e2["p"] + e2["q"])) and len(e1["pre_list"]) == len(e2["pre_list"]) and
                                                               all(x_ is y_ for x_, y_ in zip(e1["pre_list"], e2["pre_list"])) for e1, e2 in zip(ref, ar["ents"]))
                    if not same:
                        consistent = False
                    G_of[k_].append(ar["prefix"])
            A = (a, 0.0)
            Bv = (T.fbin("fmul", T.fbin("fmul", a, q), c_), T.fbin("fmul", T.fbin("fmul", a, q), s_))

            def image(Pj, n_, m_):
                dx = T.fbin("fadd", T.fbin("fmul", float(n_), A[0]), T.fbin("fmul", float(m_), Bv[0]))
                dy = T.fbin("fmul", float(m_), Bv[1])
                return [Pj[0], Pj[1], T.fbin("fadd", Pj[2], dx), Pj[3], Pj[4], T.fbin("fadd", Pj[5], dy)]
            envs_ = [dict(a=1.7, q=0.83, t=1.21, x=0.137, y=-0.211, th=0.71, shape_R=R), dict(a=2.9, q=0.57, t=0.93, x=-0.291, y=0.173, th=2.3, shape_R=R)]
            funcs_ = {"cos": math.cos, "sin": math.sin}

            def fprint(P):
                return tuple(round(float(T.evaluate(z_, en_, funcs_)), 8) for en_ in envs_ for z_ in P[:6])
            labelled = {}
            Pcopy = {}
            if consistent and by_k:
                seen_fp = {}
                for e in by_k[sorted(by_k)[0]]:
                    f_ = fprint(e["p"])
                    if f_ not in seen_fp:
                        seen_fp[f_] = len(seen_fp)
                        Pcopy[seen_fp[f_]] = e["p"]
                if len(Pcopy) != N:
                    consistent = False
            if consistent and by_k:
                kmax_ = max(by_k)
                cand = {}
                for j_ in range(N):
                    for n_ in range(-kmax_ - 1, kmax_ + 2):
                        for m_ in range(-kmax_ - 1, kmax_ + 2):
                            cand.setdefault(fprint(image(Pcopy[j_], n_, m_)), (j_, n_, m_))
                cfp = {fprint(Pcopy[i_]): i_ for i_ in range(N)}
                wmap_, _ = unwrap_terms([z_ for i_ in range(N) for z_ in Pcopy[i_] if T.is_t(z_)], link=False)
                vmemo, pm_ = {}, {}
                names_ = {c_.id: "c", s_.id: "s", cth.id: "cth", sth.id: "sth"}

                def same_poly(u_, w_):
                    if u_ is w_:
                        return True
                    try:
                        pu = polyq.to_poly(T.subst(u_, wmap_, vmemo) if T.is_t(u_) else u_, names_, pm_)
                        pw = polyq.to_poly(T.subst(w_, wmap_, vmemo) if T.is_t(w_) else w_, names_, pm_)
                    except polyq.NotPoly:
                        return False
                    return pu == pw
                verified = {}
                for k, ents in by_k.items():
                    for e in ents:
                        i_ = cfp.get(fprint(e["p"]))
                        jm = cand.get(fprint(e["q"]))
                        if i_ is None or jm is None:
                            consistent = False
                            continue
                        key_ = (tuple(id(z_) for z_ in e["q"]), jm)
                        if key_ not in verified:
                            img_ = image(Pcopy[jm[0]], jm[1], jm[2])
                            verified[key_] = all(same_poly(u_, w_) for u_, w_ in zip(e["q"], img_)) and all(same_poly(u_, w_) for u_, w_ in zip(e["p"], Pcopy[i_]))
                        if not verified[key_]:
                            consistent = False
                            continue
                        labelled.setdefault((k, i_) + jm, e)
            q0 = Query("[%s x %s] structure: every recorded test compares a copy with a lattice image of a copy (placements identified and verified as polynomial identities; %d tests recorded, shell counts %s)" % (g, sname, len(log), sorted(by_k)), [not consistent],
                       meta=dict(group=g, shape=sname, fn="PackedState::check_intersection (S opaque)"), nontrivial=False)
            all_q.append(q0)
            if not consistent:
                continue
            # real shape code for selected pairs
            exs = E.load(generics={"S": sty})
            f_tr = E.find_fn(exs, r"^%s::<impl at [^>]*>::transform$" % sty.split("::")[0])
            f_in = E.find_fn(exs, r"^%s::<impl at [^>]*>::intersects$" % sty.split("::")[0])
            shape_val = S.shape_value(sdata)
            cache = {}

            def code_intersects(e):
                key = e["x"].id
                if key not in cache:
                    P = S.transform2(list(e["p"]) + [0.0, 0.0, 0.0])
                    Qm = S.transform2(list(e["q"]) + [0.0, 0.0, 0.0])
                    s1, p1, _ = E.run(exs, f_tr, [E.ByRef(shape_val), E.ByRef(P)])
                    s2, p2, _ = E.run(exs, f_tr, [E.ByRef(shape_val), E.ByRef(Qm)])
                    r, p3, _ = E.run(exs, f_in, [E.ByRef(s1), E.ByRef(s2)])
                    cache[key] = r
                return cache[key]
            sitems = [tuple(unjf(v) for v in it_) for it_ in sdata["items"]]
            if skind == "line":
                sitems = [tuple(S.clean(v) for v in it_) for it_ in sitems]
            Wn, Wm = (4, 4) if tier == "quick" else (5, 5)
            ctx = dict(group=g, shape=sname, skind=skind, sdata=sdata, N=N, fam=fam, Pcopy=Pcopy)
            # per shell count k: the region condition G_k (path literals before the first test) and one
            # clause per test:  prefilter_e => not intersects_e .  The extraction is validated against the
            # code's own "score is Some" formula below.
            regions = {}
            for k, ents in by_k.items():
                # the region in which this shell count is used: disjunction over the arms that end with it
                G = list(G_of[k][0]) if len(G_of[k]) == 1 else [T.bor(*[T.band(*pf) if pf else True for pf in G_of[k]])]
                clauses = {}
                for lab, e in labelled.items():
                    if lab[0] != k:
                        continue
                    pre = T.band(*e["pre_list"]) if e["pre_list"] else True
                    clauses[lab[1:]] = (pre, e)
                regions[k] = (G, clauses)
                # validation: F and G_k imply every clause (with the X's as in F)
                neg = T.bor(*[T.band(pre, e["x"]) for (pre, e) in clauses.values()])
                vq = Query("[%s x %s] k=%d: 'score is Some' implies, for each of the %d recorded tests, prefilter => no intersection (extraction check)" % (g, sname, k, len(clauses)),
                           purify(fixR + list(pc) + G + [some, neg]), timeout=60, meta=dict(group=g, shape=sname, k=k, abstraction="compared quantities replaced by fresh reals"), nontrivial=False)
                all_q.append(vq)
            import math as _m
            # p1/p2 copies of a centrally symmetric polygon are translates of each other (W = +-I maps the vertex set
            # onto itself): exact overlap has the simple Minkowski form
            def central(sd):
                vs = [(round(S.clean(it_[0]), 9), round(S.clean(it_[1]), 9)) for it_ in sd["items"]]
                return all((-vx if vx != 0 else 0.0, -vy if vy != 0 else 0.0) in [(wx, wy) for wx, wy in vs] or any(abs(-vx - wx) < 1e-8 and abs(-vy - wy) < 1e-8 for wx, wy in vs) for vx, vy in vs)
            translates = skind == "line" and all(abs(o[0]) == 1 and abs(o[4]) == 1 and o[1] == 0 and o[3] == 0 and o[0] == o[4] for o in groups[g]["ops"]) and central(sdata)
            nsides = len(sdata["items"])
            r_in = R * _m.cos(_m.pi / nsides) * (1 - 1e-12) if skind == "line" else None

            def d2(P, Q_):
                dx, dy = T.fbin("fsub", P[2], Q_[2]), T.fbin("fsub", P[5], Q_[5])
                return T.fbin("fadd", T.fbin("fmul", dx, dx), T.fbin("fmul", dy, dy))

            def wraps_in(terms_):
                found, _ = unwrap_terms([z for z in terms_ if T.is_t(z)], link=False)
                return set(found)

            def finish(asserts, link=False, i_=None, j_=None):
                """eliminate the angle from the guards; replace wrapped coordinates.  Only differences of
                positions matter (the overlap search is translation invariant: every test compares two
                placements), so copy j is put at the fractional origin and copy i at a free offset in (-1,1)^2
                -- a superset of the offsets a site can produce, hence sound for unsat."""
                asserts = simplify_guards(asserts, a, q, t, c_)
                wmap, wcons = unwrap_terms(asserts, link=link)
                if wmap and not link and i_ is not None:
                    wi = wraps_in([Pcopy[i_][2], Pcopy[i_][5]])
                    wj = wraps_in([Pcopy[j_][2], Pcopy[j_][5]])
                    newmap = {}
                    cons = []
                    wy = wraps_in([Pcopy[i_][5]])
                    for tid, u in wmap.items():
                        if tid in wj or i_ == j_:
                            newmap[tid] = 0.0
                        elif tid in wi:
                            dv = T.var("delta%s%d" % ("y" if tid in wy else "x", tid), "F")
                            newmap[tid] = dv
                            cons += [T.fcmp("flt", -1.0, dv), T.fcmp("flt", dv, 1.0)]
                        else:
                            newmap[tid] = u
                            cons += [T.fcmp("fle", -0.5, u), T.fcmp("flt", u, 0.5)]
                    memo = {}
                    return [T.subst(z, newmap, memo) for z in asserts] + cons
                if wmap:
                    memo = {}
                    asserts = [T.subst(z, wmap, memo) for z in asserts] + wcons
                return asserts
            for k, (G, clauses) in regions.items():
                def hyp_of(e_pre, e):
                    """what a negative test tells us"""
                    if skind == "line":
                        # polygons: the edge test is complete for overlapping congruent convex polygons (C12), so a
                        # negative test means no overlap, hence the inscribed discs are disjoint
                        return T.bor(T.bnot(e_pre), T.fcmp("fle", (2 * r_in) ** 2, d2(e["p"], e["q"])))
                    return T.bor(T.bnot(e_pre), T.bnot(code_intersects(e)))

                def near_clauses(i_, j_, n_, m_, radius=1):
                    out = []
                    for (li, lj, ln, lm), (pre, e) in clauses.items():
                        near = False
                        if (li, lj) == (i_, j_) and max(abs(ln - n_), abs(lm - m_)) <= radius:
                            near = True
                        if (li, lj) == (j_, i_) and max(abs(ln + n_), abs(lm + m_)) <= radius:
                            near = True
                        if li == lj and li in (i_, j_) and max(abs(ln), abs(lm)) <= 1:
                            near = True
                        if near:
                            out.append(hyp_of(pre, e))
                    return out
                for i_ in range(N):
                    for j_ in range(i_, N):
                        for n_ in range(-Wn, Wn + 1):
                            for m_ in range(-Wm, Wm + 1):
                                if i_ == j_ and (n_, m_) <= (0, 0):
                                    continue
                                gimg = image(Pcopy[j_], n_, m_)
                                tested = clauses.get((i_, j_, n_, m_)) or clauses.get((j_, i_, -n_, -m_))
                                base = dom_geo + fixR + G
                                if tested is not None:
                                    pre, e = tested
                                    # (1) the prefilter lets through every pair whose enclosing discs overlap
                                    if pre is not True:
                                        qq = Query("[%s x %s] k=%d copies %d,%d image (%d,%d) [tested]: the centre-distance prefilter passes whenever the enclosing discs overlap" % (g, sname, k, i_, j_, n_, m_),
                                                   finish(base + [T.fcmp("flt", d2(e["p"], e["q"]), (2 * R) ** 2), T.bnot(pre)], i_=i_, j_=j_), timeout=30, meta=dict(group=g, shape=sname, k=k, i=i_, j=j_, n=n_, m=m_, kind="prefilter"))
                                        P(qq, conv)
                                        all_q.append(qq)
                                        ctxs.append((qq, ctx))
                                    # (2) discs: the tested pair's own clause excludes a true overlap (polygons: this step is C12)
                                    if skind == "mol":
                                        goal = true_overlap(skind, sitems, e["p"], e["q"])
                                        qq = Query("[%s x %s] k=%d copies %d,%d image (%d,%d) [tested]: a negative test excludes an overlap of more than 1e-9" % (g, sname, k, i_, j_, n_, m_),
                                                   finish(base + [hyp_of(pre, e), goal], i_=i_, j_=j_), timeout=30 if tier == "quick" else 240, meta=dict(group=g, shape=sname, k=k, i=i_, j=j_, n=n_, m=m_, kind="tested"))
                                        P(qq, conv)
                                        all_q.append(qq)
                                        ctxs.append((qq, ctx))
                                    continue
                                # untested image: can it overlap although all neighbouring tests were negative?
                                hyp = near_clauses(i_, j_, n_, m_)
                                if skind == "mol":
                                    goal = true_overlap(skind, sitems, Pcopy[i_], gimg)
                                else:
                                    goal = T.fcmp("flt", d2(Pcopy[i_], gimg), (2 * R) ** 2)
                                qq = Query("[%s x %s] k=%d copies %d,%d image (%d,%d) [not searched]: cannot overlap when the neighbouring tests are negative%s" % (g, sname, k, i_, j_, n_, m_, "" if skind == "mol" else " (stage 1: inscribed/enclosing discs)"),
                                           finish(base + hyp + [goal], i_=i_, j_=j_), timeout=30 if tier == "quick" else 240,
                                           meta=dict(group=g, shape=sname, k=k, i=i_, j=j_, n=n_, m=m_, hypotheses=len(hyp), kind="untested"))
                                qq.get_terms = [c_, s_, cth, sth]
                                qq.rawq = (base + hyp + [goal], finish)
                                P(qq, conv)
                                if skind == "line":
                                    def mk_stage2(i_=i_, j_=j_, n_=n_, m_=m_, k=k, base=base, clauses=clauses, gimg=gimg, finish=finish, translates=translates, conv=conv):
                                        hyp2 = []
                                        for (li, lj, ln, lm), (pre, e) in clauses.items():
                                            near = ((li, lj) == (i_, j_) and max(abs(ln - n_), abs(lm - m_)) <= 1) or ((li, lj) == (j_, i_) and max(abs(ln + n_), abs(lm + m_)) <= 1)
                                            near = near or (li == lj and li in (i_, j_) and max(abs(ln), abs(lm)) <= 1)
                                            if near:
                                                # content of a negative edge test (through C12): the polygons do not overlap, in
                                                # particular no vertex of one lies inside the other
                                                if translates:
                                                    hyp2.append(T.bor(T.bnot(pre), T.bnot(translate_overlap(sitems, e["p"], e["q"], 1e-7))))
                                                else:
                                                    # a separating edge normal exists (margin 1e-7): exact content of "no overlap" for convex polygons
                                                    hyp2.append(T.bor(T.bnot(pre), T.bnot(true_overlap("line", sitems, e["p"], e["q"], tol=1e-7))))
                                        goal2 = translate_overlap(sitems, Pcopy[i_], gimg, 1e-6) if translates else true_overlap("line", sitems, Pcopy[i_], gimg, tol=1e-6)
                                        raw2 = base + hyp2 + [goal2]
                                        q2 = Query("[%s x %s] k=%d copies %d,%d image (%d,%d) [not searched]: cannot overlap when the neighbouring tests are negative (stage 2: no vertex of a tested neighbour inside the other, separating-axis overlap)" % (g, sname, k, i_, j_, n_, m_),
                                                   finish(raw2, i_=i_, j_=j_), timeout=90 if tier == "quick" else 600, meta=dict(group=g, shape=sname, k=k, i=i_, j=j_, n=n_, m=m_, kind="untested-exact", hypotheses=len(hyp2)))
                                        q2.get_terms = [c_, s_, cth, sth]
                                        q2.rawq = (raw2, finish)
                                        return P(q2, conv)
                                    qq.stage2 = mk_stage2
                                all_q.append(qq)
                                ctxs.append((qq, ctx))
                # beyond the window: real-valued offsets (covers every farther image at once)
                nn, mm = F("n_off"), F("m_off")
                for i_ in range(N):
                    for j_ in range(i_, N):
                        far = T.bor(T.fcmp("fle", Wn + 1.0, nn), T.fcmp("fle", nn, -(Wn + 1.0)), T.fcmp("fle", Wm + 1.0, mm), T.fcmp("fle", mm, -(Wm + 1.0)))
                        dx = T.fbin("fadd", T.fbin("fmul", nn, A[0]), T.fbin("fmul", mm, Bv[0]))
                        dy = T.fbin("fmul", mm, Bv[1])
                        Pj = Pcopy[j_]
                        img = [Pj[0], Pj[1], T.fbin("fadd", Pj[2], dx), Pj[3], Pj[4], T.fbin("fadd", Pj[5], dy)]
                        close = T.fcmp("flt", d2(Pcopy[i_], img), (2 * R) ** 2)
                        hyp = []
                        for (li, lj, ln, lm), (pre, e) in clauses.items():
                            if li == lj and max(abs(ln), abs(lm)) <= 1:
                                hyp.append(hyp_of(pre, e))
                        qq = Query("[%s x %s] k=%d copies %d,%d: no image beyond the window |n|<=%d, |m|<=%d can come within 2R of a copy in a scored state (offsets real-valued)" % (g, sname, k, i_, j_, Wn, Wm),
                                   finish(dom_geo + fixR + G + hyp + [far, close], i_=i_, j_=j_), timeout=60 if tier == "quick" else 300, meta=dict(group=g, shape=sname, k=k, i=i_, j=j_, window=(Wn, Wm), kind="far"))
                        P(qq, conv)
                        all_q.append(qq)
                        ctxs.append((qq, ctx))
    import time as _time
    t_start = _time.time()
    budget = 420 if tier == "quick" else 1500
    deadline = t_start + budget
    if os.environ.get("VERIF_C01_MATCH"):
        # debugging aid: restrict to the obligations whose name contains the substring and dump their scripts
        all_q = [qq for qq in all_q if os.environ["VERIF_C01_MATCH"] in qq.name]
        for n_, qq in enumerate(all_q):
            open(os.path.join(E.TARGET, "c01_dump_%d.smt2" % n_), "w").write("; %s\n" % qq.name + qq.script()[0])
    done = run_queries(all_q, deadline=deadline)
    for qq in done:
        if qq.status == "unsat":
            # decided: the script, skeletons and raw assertions are not needed again
            qq.poly_text = qq.poly_skels = None
            qq.asserts = []
            qq.rawq = None
            qq.stage2 = None
    ctx_of = {id(qq): cx for qq, cx in ctxs}
    # queries nlsat could not decide are split over a grid of the cell/offset domain (36 boxes); every
    # box must be unsat for the obligation to count, a sat box is a counterexample candidate
    def split_unknown(qs_, label):
        import itertools
        todo = [qq for qq in qs_ if qq.status not in ("sat", "unsat") and getattr(qq, "rawq", None) is not None]
        subs = []
        for qq in todo:
            dvs = [z for z in T.free_vars(qq.asserts) if z.args[0].startswith("delta")]
            cbands = [(0.0, 0.2), (0.2, 0.48), (0.48, 0.8661)]
            qbands = [(0.1, 1.0 / 3), (1.0 / 3, 0.5), (0.5, 1.0)]
            signs = list(itertools.product([0, 1], repeat=len(dvs)))
            qq.boxes = []
            for (c0, c1), (q0, q1), sg in itertools.product(cbands, qbands, signs):
                extra = [T.fcmp("fle", c0, c_), T.fcmp("fle", c_, c1), T.fcmp("fle", q0, q), T.fcmp("fle", q, q1)]
                extra += [T.fcmp("fle", 0.0, dv) if s__ else T.fcmp("flt", dv, 0.0) for dv, s__ in zip(dvs, sg)]
                b = Query(qq.name + " [box]", qq.asserts + extra, timeout=20 if tier == "quick" else 120, meta=qq.meta)
                b.get_terms = getattr(qq, "get_terms", [])
                b.rawq = qq.rawq
                P(b, getattr(qq, "poly_conv", None))
                qq.boxes.append(b)
                subs.append(b)
        if subs:
            run_queries(subs, deadline=deadline)
            for qq in todo:
                st = [b.status for b in qq.boxes]
                qq.secs += sum(b.secs for b in qq.boxes)
                if any(s__ == "sat" for s__ in st):
                    b = [b for b in qq.boxes if b.status == "sat"][0]
                    qq.status, qq.model = "sat", b.model
                    qq.term_names = getattr(b, "term_names", {})
                elif all(s__ == "unsat" for s__ in st):
                    qq.status = "unsat"
                    qq.meta = dict(qq.meta, decided_by="%d domain boxes, all unsat" % len(st))
            res.extra[label] = len(todo)
    # polygons: goals the disc abstraction cannot exclude get the exact query
    stage2 = []
    for qq in list(done):
        if getattr(qq, "stage2", None) is not None and qq.status != "unsat":
            q2 = qq.stage2()
            ctx_of[id(q2)] = ctx_of.get(id(qq))
            stage2.append((qq, q2))
    def replay(qq):
        cx = ctx_of.get(id(qq))
        if cx is None:
            return None
        m = dict(qq.model)
        g = cx["group"]
        import math
        names = getattr(qq, "term_names", {})
        cv = m.get(names.get(c_.id)) if names.get(c_.id) else None
        sv = m.get(names.get(s_.id)) if names.get(s_.id) else None
        if cv is not None and sv is not None:
            m["t"] = math.atan2(sv, cv)
        dks = [k_ for k_ in m if k_.startswith("deltax") or k_.startswith("deltay")]
        if m.get("x") is None and dks and all(m[k_] is not None for k_ in dks) and qq.meta.get("i") is not None:
            # relative offsets -> a site: the wrapped fractional coordinates are affine in the site (x, y); ask for
            # a site whose copies i and j differ by the model's offset (linear arithmetic, decided at once)
            Pc = cx["Pcopy"]
            i_, j_ = qq.meta["i"], qq.meta["j"]
            fi, ci = unwrap_terms([Pc[i_][2], Pc[i_][5]], link=True)
            fj, cj = unwrap_terms([Pc[j_][2], Pc[j_][5]], link=True)
            yi, _ = unwrap_terms([Pc[i_][5]], link=False)
            yj, _ = unwrap_terms([Pc[j_][5]], link=False)
            cons = list(ci) + list(cj) + [T.fcmp("fle", -0.5, x), T.fcmp("fle", x, 0.5), T.fcmp("fle", -0.5, y), T.fcmp("fle", y, 0.5)]
            ok = True
            for k_ in dks:
                tid = int(k_[6:])
                isy = k_.startswith("deltay")
                if tid not in fi:
                    ok = False
                    break
                others = [u_ for t_, u_ in fj.items() if (t_ in yj) == isy]
                if len(others) != 1:
                    ok = False
                    break
                dd = T.fbin("fsub", fi[tid], others[0])
                cons += [T.fcmp("fle", m[k_] - 1e-10, dd), T.fcmp("fle", dd, m[k_] + 1e-10)]
            if ok:
                memo_ = {}
                fm = dict(fi)
                fm.update(fj)
                qs_ = Query("site", [T.subst(z_, {}, memo_) for z_ in cons], timeout=30)
                run_queries([qs_])
                if qs_.status == "sat" and qs_.model.get("x") is not None:
                    m["x"], m["y"] = qs_.model["x"], qs_.model["y"]
                    if m.get("cth") is not None and m.get("sth") is not None:
                        m["th"] = math.atan2(m["sth"], m["cth"])
                    elif names.get(cth.id) and m.get(names[cth.id]) is not None and m.get(names.get(sth.id)) is not None:
                        m["th"] = math.atan2(m[names[sth.id]], m[names[cth.id]])
        if m.get("x") is None and getattr(qq, "rawq", None) is not None and m.get("a") is not None and cv is not None:
            # the query used relative offsets: solve the exact (site-linked) version with the cell pinned
            raw, fin = qq.rawq
            pin = [T.fcmp("fle", m["a"] - 1e-9, a), T.fcmp("fle", a, m["a"] + 1e-9), T.fcmp("fle", m["q"] - 1e-9, q), T.fcmp("fle", q, m["q"] + 1e-9),
                   T.fcmp("fle", cv - 1e-9, c_), T.fcmp("fle", c_, cv + 1e-9)]
            for tz in (cth, sth):
                vz = m.get(names.get(tz.id)) if names.get(tz.id) else None
                if vz is not None:
                    pin += [T.fcmp("fle", vz - 1e-9, tz), T.fcmp("fle", tz, vz + 1e-9)]
            box = [T.fcmp("fle", -0.5, x), T.fcmp("fle", x, 0.5), T.fcmp("fle", -0.5, y), T.fcmp("fle", y, 0.5)]
            q2 = Query("exact", fin(raw + pin + box, link=True), timeout=120)
            q2.get_terms = [c_, s_, cth, sth]
            run_queries([q2])
            if q2.status != "sat":
                return ("spurious", "relative-offset model has no site realising it (%s)" % q2.status)
            m2 = dict(q2.model)
            n2 = getattr(q2, "term_names", {})
            m.update(m2)
            if n2.get(cth.id) and m2.get(n2[cth.id]) is not None:
                m["th"] = math.atan2(m2.get(n2[sth.id], 0.0), m2.get(n2[cth.id], 1.0))
        vals = dict(a=m.get("a"), q=m.get("q"), t=m.get("t"), x=m.get("x"), y=m.get("y"))
        if any(v_ is None for v_ in vals.values()):
            return ("spurious", "model not numeric")
        sj = shape_json_of(cx["sdata"], cx["shape"])
        # the model's sin/cos are uninterpreted values; the native run uses the angles themselves.
        cands = []
        thv = m.get("th")
        for theta in ([thv] if thv is not None else []) + [0.0, 0.3, 0.7853981633974483, 1.2]:
            cands.append(theta)
        for theta in cands:
            stj = state_json("packed", g, groups, sj, vals["a"], vals["q"], vals["t"], vals["x"], vals["y"], theta, family=cx["fam"])
            o = oracle("overlap", [cx["skind"]], stj)
            if o.get("score") is not None and o.get("overlaps"):
                w = o.get("witness", {})
                return ("violated", "group %s, %s: score() = %.6g but copies %s and %s (image %s,%s) overlap by %.3g (cell a=%.5g ratio=%.5g angle=%.5g, site %.5g,%.5g,%.5g)" % (
                    g, cx["shape"], unjf(o["score"]), w.get("i"), w.get("j"), w.get("n"), w.get("m"), unjf(o["max_overlap"]), vals["a"], vals["q"], vals["t"], vals["x"], vals["y"], theta),
                    dict(kind="oracle-overlap", state=stj, shape_kind=cx["skind"], result=o),
                    dict(clause="missed-overlap", shape=cx["shape"], beyond_searched_shells=max(abs(w.get("n", 0)), abs(w.get("m", 0))) > 3 or True))
        return ("spurious", "native score/oracle agree (no undetected overlap) for the model's cell and site")
    _replay_memo = {}

    def replay_m(qq):
        """replay, once per query object"""
        if id(qq) not in _replay_memo:
            _replay_memo[id(qq)] = replay(qq)
        return _replay_memo[id(qq)]

    def theta_bb(goals, deadline):
        """Orientation branch and bound.  Each goal's atoms are affine in (cos, sin) of the shape orientation.  The
        circle of orientations is covered by intervals; on an interval every atom is weakened to 'holds for some
        orientation of the interval' (polyq.relax_theta), which removes the orientation from the query.  unsat on
        every interval of a cover = the goal is unsat for every orientation.  An interval that is not unsat is
        halved; for a sat interval the exact query with the orientation pinned to its midpoint is asked too, and a
        model of that one is a counterexample candidate (replayed like any other)."""
        N0 = 64
        maxdepth = 3 if tier == "quick" else 7
        tmo = 30 if tier == "quick" else 180
        front = {}
        info = {}
        for gq in goals:
            front[id(gq)] = [(k_ * 2 * math.pi / N0, 2 * math.pi / N0, 0) for k_ in range(N0)]
            info[id(gq)] = dict(goal=gq, closed=0, open=[], sat=None, queries=0, finest=2 * math.pi / N0, secs=0.0)
        cache = {}
        rounds = 0

        def pinned(gq, thm):
            cm_, sm_ = math.cos(thm), math.sin(thm)
            pq_ = Query(gq.name + " [orientation = %.5f]" % thm, [], timeout=tmo, meta=gq.meta)
            pq_.poly_text = polyq.script_of(polyq.pin_theta(gq.poly_skels, cm_, sm_))
            pq_.poly_back = lambda m_, dxy=gq.poly_dxy, cm_=cm_, sm_=sm_: dict(polyq.Converter.model_back(m_, dxy), cth=cm_, sth=sm_)
            return pq_
        # phase A, counterexample search: the exact query with the orientation pinned to the midpoint of a base
        # interval (cheap: no orientation variable left).  Coarse-to-fine over the orientations, nearest images first;
        # a model is replayed at once and a reproduced violation ends the search (the verdict is settled).
        pcache = {}
        order = []
        for gid, inf in info.items():
            mt = inf["goal"].meta
            ring = max(abs(mt.get("n", 0)), abs(mt.get("m", 0)))
            for idx_, (th0, w, dep) in enumerate(front[gid]):
                lvl = 0 if idx_ % 8 == 0 else 1 if idx_ % 8 == 4 else 2 if idx_ % 4 == 2 else 3
                order.append((lvl, ring, mt.get("k", 0), gid, th0 + w / 2))
        order.sort(key=lambda z_: z_[:3])
        found = False
        npinned = 0
        dl_a = _time.time() + (deadline - _time.time()) * 0.6
        pos = 0
        while pos < len(order) and _time.time() < dl_a and not found:
            batch = []
            while pos < len(order) and len(batch) < 112:
                lvl, ring, k__, gid, thm = order[pos]
                pos += 1
                if info[gid]["sat"] is not None:
                    continue
                pq_ = pinned(info[gid]["goal"], thm)
                if pq_.poly_text in pcache:
                    continue
                pcache[pq_.poly_text] = pq_
                batch.append((gid, pq_))
            run_queries([pq_ for _, pq_ in batch], deadline=dl_a)
            npinned += len(batch)
            for gid, pq_ in batch:
                info[gid]["secs"] += pq_.secs
                if pq_.status == "sat" and info[gid]["sat"] is None:
                    gq = info[gid]["goal"]
                    pq_.rawq, pq_.term_names = gq.rawq, dict(gq.poly_conv.term_names)
                    ctx_of[id(pq_)] = ctx_of.get(id(gq))
                    out_ = replay_m(pq_)
                    if out_ is not None and out_[0] == "violated":
                        info[gid]["sat"] = pq_
                        _replay_memo[id(gq)] = out_
                        front[gid] = []
                        found = True
                    else:
                        info[gid].setdefault("spurious", []).append(out_[1] if out_ else "no replay")
        res.extra["orientation_pinned_queries"] = npinned
        if found:
            # settled: do not spend the remaining budget on proving the other goals of a violated tree
            for gid in front:
                if info[gid]["sat"] is None and front[gid]:
                    info[gid]["open"] += [(th0, w, "not attempted: a violation was already reproduced") for (th0, w, dep) in front[gid]]
                    front[gid] = []
        while any(front.values()) and _time.time() < deadline:
            rounds += 1
            batch = []
            for gid, ivs in front.items():
                gq = info[gid]["goal"]
                for (th0, w, dep) in ivs:
                    sks = polyq.relax_theta(gq.poly_skels, math.cos(th0), math.sin(th0), w * (1 + 1e-6))
                    text = polyq.script_of(sks)
                    rq = cache.get(text)
                    if rq is None:
                        rq = Query(gq.name + " [orientation in %.4f+%.4f]" % (th0, w), [], timeout=tmo, meta=gq.meta)
                        rq.poly_text = text
                        cache[text] = rq
                        batch.append(rq)
                    info[gid].setdefault("pending", []).append((th0, w, dep, rq))
            run_queries(batch, deadline=deadline)
            cache = {}   # texts of finished rounds are not needed again
            pins = []
            for gid in list(front):
                inf = info[gid]
                nxt = []
                for (th0, w, dep, rq) in inf.pop("pending", []):
                    inf["queries"] += 1
                    inf["secs"] += rq.secs
                    if rq.status == "unsat":
                        inf["closed"] += 1
                        inf["finest"] = min(inf["finest"], w)
                        continue
                    if rq.status == "sat" and inf["sat"] is None:
                        if dep > 0:
                            pins.append((gid, pinned(inf["goal"], th0 + w / 2)))
                    if dep < maxdepth:
                        nxt += [(th0, w / 2, dep + 1), (th0 + w / 2, w / 2, dep + 1)]
                    else:
                        inf["open"].append((th0, w, rq.status))
                front[gid] = nxt
            if pins:
                run_queries([pq_ for _, pq_ in pins], deadline=deadline)
                for gid, pq_ in pins:
                    info[gid]["secs"] += pq_.secs
                    if pq_.status == "sat" and info[gid]["sat"] is None:
                        info[gid]["sat"] = pq_
                        front[gid] = []
        for gid, inf in info.items():
            gq = inf["goal"]
            gq.secs += inf["secs"]
            left = len(front.get(gid, [])) + len(inf["open"])
            gq.meta = dict(gq.meta, orientation_intervals=inf["queries"], intervals_unsat=inf["closed"], intervals_open=left, finest_interval=round(inf["finest"], 5))
            if inf["sat"] is not None:
                gq.status, gq.model = "sat", inf["sat"].model
                gq.term_names = dict(gq.poly_conv.term_names)
            elif left == 0:
                gq.status = "unsat"
                gq.meta = dict(gq.meta, decided_by="orientation branch and bound: %d intervals covering the circle, all unsat" % inf["closed"])
            else:
                gq.status, gq.raw = "unknown", "orientation branch and bound: %d of %d intervals not unsat at width %.4f (%s)" % (left, inf["queries"], inf["finest"], "budget" if front.get(gid) else "depth limit")
            gq.bb_done = True
        res.extra["orientation_bb_goals"] = len(goals)
        res.extra["orientation_bb_queries"] = sum(inf_["queries"] for inf_ in info.values())
        res.extra["orientation_bb_rounds"] = rounds

    # molecules: the untested-image query is already exact (discs); what the solver left undecided goes through the
    # same orientation branch and bound (the disc centres rotate with the molecule)
    bb_mol = []
    for qq in done:
        if qq.status not in ("sat", "unsat") and qq.meta.get("kind") == "untested" and getattr(qq, "stage2", None) is None and getattr(qq, "poly_skels", None) is not None:
            try:
                polyq.relax_theta(qq.poly_skels, 1.0, 0.0, 0.1)
                bb_mol.append(qq)
            except polyq.NotPoly as e_:
                qq.meta = dict(qq.meta, no_orientation_bb=str(e_))
    if bb_mol and not os.environ.get("VERIF_C01_NOBB"):
        theta_bb(bb_mol, _time.time() + (360 if tier == "quick" else 1200))
    split_unknown([qq for qq in done if getattr(qq, "stage2", None) is None and not getattr(qq, "bb_done", False)], "split_round1")
    if stage2:
        bb = []
        for q1, q2 in stage2:
            try:
                if getattr(q2, "poly_skels", None) is not None:
                    polyq.relax_theta(q2.poly_skels, 1.0, 0.0, 0.1)
                    bb.append(q2)
            except polyq.NotPoly as e_:
                q2.meta = dict(q2.meta, no_orientation_bb=str(e_))
            if os.environ.get("VERIF_C01_MATCH"):
                print("stage2", q2.name[:70], "converted" if getattr(q2, "poly_skels", None) is not None else q2.meta.get("not_converted"), q2.meta.get("no_orientation_bb"))
        if bb and not os.environ.get("VERIF_C01_NOBB"):
            theta_bb(bb, _time.time() + (360 if tier == "quick" else 1200))
            repl0 = {id(q1): q2 for q1, q2 in stage2 if getattr(q2, "bb_done", False)}
            done = [repl0.get(id(qq), qq) for qq in done]
            stage2 = [(q1, q2) for q1, q2 in stage2 if not getattr(q2, "bb_done", False)]
    if stage2:
        if os.environ.get("VERIF_C01_MATCH"):
            for n_, (_, q2) in enumerate(stage2):
                open(os.path.join(E.TARGET, "c01_dump_s2_%d.smt2" % n_), "w").write("; %s\n" % q2.name + q2.script()[0])
        run_queries([q2 for _, q2 in stage2], deadline=deadline)
        split_unknown([q2 for _, q2 in stage2], "split_round2")
        repl0 = {id(q1): q2 for q1, q2 in stage2}
        done = [repl0.get(id(qq), qq) for qq in done]
        stage2 = []
    # counterexample search for what is still undecided: the same exact query with (angle, ratio) fixed on a
    # grid that hugs the guards' own thresholds (the remaining variables -- cell length, relative offset,
    # orientation -- stay symbolic).  A sat cell is replayed; unsat cells prove nothing beyond the grid and the
    # obligation stays undischarged.
    import math as _m2
    offs = [0.0, 0.1, 0.19, 0.21, 0.35, 0.45, 0.49, 0.51, 0.8, 1.04]
    ratios = [1.0, 0.8, 0.6, 0.53, 0.51, 0.49, 0.4, 0.34, 0.32, 0.2, 0.1]
    undec = [qq for qq in done if qq.status not in ("sat", "unsat") and getattr(qq, "rawq", None) is not None and not getattr(qq, "bb_done", False)][:40]
    if any(v_ and v_[0] == "violated" for v_ in _replay_memo.values()):
        undec = []   # a violation is already reproduced; no further counterexample search
    gridq = []
    thetas = [k_ * _m2.pi / 8 + 0.05 for k_ in range(4)]   # squares/triangles: orientation modulo the shape's symmetry
    for qq in undec:
        raw, fin = qq.rawq
        qq.grid = []
        is_poly = "square" in qq.name or "triangle" in qq.name
        for off in offs:
            ang = _m2.pi / 2 - off
            cv, sv = _m2.cos(ang), _m2.sin(ang)
            for rv_ in ratios:
                for thv in (thetas if is_poly else [None]):
                    pin = [T.fcmp("fle", cv - 1e-12, c_), T.fcmp("fle", c_, cv + 1e-12), T.fcmp("fle", sv - 1e-12, s_), T.fcmp("fle", s_, sv + 1e-12), T.fcmp("feq", q, rv_)]
                    if thv is not None:
                        ct, st_ = _m2.cos(thv), _m2.sin(thv)
                        pin += [T.fcmp("fle", ct - 1e-12, cth), T.fcmp("fle", cth, ct + 1e-12), T.fcmp("fle", st_ - 1e-12, sth), T.fcmp("fle", sth, st_ + 1e-12)]
                    gq = Query(qq.name + " [grid angle=pi/2-%g ratio=%g%s]" % (off, rv_, "" if thv is None else " theta=%.3f" % thv), fin(raw + pin, i_=qq.meta.get("i"), j_=qq.meta.get("j")), timeout=10, meta=qq.meta)
                    gq.get_terms = [c_, s_, cth, sth]
                    gq.rawq = (raw + pin, fin)
                    P(gq, getattr(qq, "poly_conv", None))
                    qq.grid.append(gq)
                    gridq.append(gq)
    if gridq:
        # interleave the goals so that a short budget still touches every goal
        import random as _rnd
        _rnd.Random(seed).shuffle(gridq)
        run_queries(gridq, deadline=deadline + (180 if tier == "quick" else 600))
        for qq in undec:
            hits = [gq for gq in qq.grid if gq.status == "sat"]
            qq.secs += sum(gq.secs for gq in qq.grid)
            if hits:
                qq.status, qq.model = "sat", hits[0].model
                qq.term_names = getattr(hits[0], "term_names", {})
                qq.rawq = hits[0].rawq
            else:
                qq.meta = dict(qq.meta, grid_cells_unsat=sum(1 for gq in qq.grid if gq.status == "unsat"), grid_cells=len(qq.grid))
        res.extra["grid_search_goals"] = len(undec)
        res.extra["grid_queries"] = len(gridq)
    if stage2:
        pass
        repl = {id(q1): q2 for q1, q2 in stage2}
        done = [repl.get(id(qq), qq) for qq in done]
        res.extra["stage2_queries"] = len(stage2)

    # the atom translations the change of variables relied on, each discharged as an equivalence over the old variables
    keys = set()
    for cv_ in convs:
        keys |= cv_.used
    if keys and not os.environ.get("VERIF_C01_NOPOLY"):
        lq = []
        for key in sorted(keys, key=str):
            lqq = Query("change of variables: %s %s %s (side %s) is equivalent to its translation over (A,Bx,By)" % (key[0], key[1], float(key[3]), key[2]), [], timeout=60, nontrivial=False)
            lqq.poly_text = polyq.lemma_text(*key)
            lq.append(lqq)
        run_queries(lq)
        bad = [x for x in lq if x.status != "unsat"]
        res.ob("change of variables (a,q,cos,sin,offset) -> (A,Bx,By,u,v): %d atom translations proved equivalent" % (len(lq) - len(bad)), "z3/R", "discharged" if not bad else "undischarged",
               "unsat" if not bad else "not proven: " + "; ".join("%s:%s" % (x.name[:60], x.status) for x in bad[:5]), sum(x.secs for x in lq), dict(lemmas=len(lq), failed=len(bad)), False)
        res.extra["cov_lemmas"] = len(lq)
        res.extra["cov_converted_queries"] = sum(1 for qq in done if getattr(qq, "poly_conv", None) is not None)
    agg = {}
    for qq in done:
        cx = ctx_of.get(id(qq))
        if cx is None or qq.status != "unsat":
            record(res, qq, replay_m)
        else:
            key = (cx["group"], cx["shape"])
            agg.setdefault(key, []).append(qq)
    for (g, sname), lst in agg.items():
        res.ob("[%s x %s] %d image obligations discharged (unsat)" % (g, sname, len(lst)), "mirsym+z3/R", "discharged", "unsat", sum(x.secs for x in lst),
               dict(group=g, shape=sname, queries=len(lst), example=lst[0].name))
        # count them individually for the evidence
    res.extra["image_obligations_unsat"] = sum(len(v) for v in agg.values())
    res.functions = used_fns(exo)
    res.stubs = summaries_used()
    res.bounds = ["groups %s x shapes %s; every cell in the optimiser's bounds (length [0.01,50], ratio [0.1,1], angle [pi/6,pi/2]) and site in [-1/2,1/2]^2 with any orientation; image window |n|,|m|<=%d plus a real-offset obligation for everything beyond" % (glist, [s[0] for s in shapes], 4 if tier == "quick" else 5),
                  "the size-based shell count ceil(2R/spacing) is followed for values 0..%d (cells whose lattice-line spacing is at least 2R/%d); flatter cells are outside the claim" % (Kmax, Kmax)]
    res.assumptions = ["R-mode; wrap replaced by u = P - n, n in -2..2, -1/2 <= u < 1/2 (C15)", "hypotheses: the code's own overlap-search formula with the tests adjacent to the goal image (and the nearest self-images) instantiated by the real intersects code; all other tests left free (sound for unsat)",
                       "true overlap: discs by centre distance, convex polygons by the separating-axis condition with margin 1e-9", "the angle's cosine is linked to the angle at the guards' thresholds by monotonicity of cos on [pi/6, pi/2]"]


# ------------------------------------------------------------------------------ C17

ORD = {ch: ord(ch) for ch in "xy+-*/ 0123456789"}


def ref_component(chars):
    """Reference transducer written from the grammar
         comp := ws* [+|-] ws* term ( ws* (+|-) ws* term )* ws*
         term := 'x' | 'y' | D | D ws* '/' ws* D'      (D digit, D' non-zero digit; x, y and the
                                                         constant each at most once)
    over symbolic characters; -> (valid, coef_x, coef_y, constant)"""
    TRUE, FALSE = True, False
    ok = TRUE
    at_start, expect, after_digit, after_slash = TRUE, TRUE, FALSE, FALSE
    sign = 1.0
    ksign = 1.0
    num = 0.0
    cx = cy = k = 0.0
    seen_x = seen_y = seen_k = FALSE
    for c in chars:
        is_ = lambda ch: T.icmp("ieq", c, ORD[ch])
        sp, plus, minus, slash, cxx, cyy = is_(" "), is_("+"), is_("-"), is_("/"), is_("x"), is_("y")
        digit = T.band(T.icmp("ile", 48, c), T.icmp("ile", c, 57))
        dval = T.i2f(T.ibin("isub", c, 48))
        nz = T.band(digit, T.bnot(T.icmp("ieq", c, 48)))
        opch = T.bor(plus, minus)
        newsign = T.ite(minus, -1.0, 1.0)
        # what each state accepts
        in_expect_ok = T.bor(sp, T.band(cxx, T.bnot(seen_x)), T.band(cyy, T.bnot(seen_y)), T.band(digit, T.bnot(seen_k)), T.band(opch, at_start))
        in_digit_ok = T.bor(sp, slash, opch)
        in_slash_ok = T.bor(sp, nz)
        in_done_ok = T.bor(sp, opch)
        done = T.band(T.bnot(expect), T.bnot(after_digit), T.bnot(after_slash))
        ok = T.band(ok, T.bor(T.band(expect, in_expect_ok), T.band(after_digit, in_digit_ok), T.band(after_slash, in_slash_ok), T.band(done, in_done_ok)))
        take_x = T.band(expect, cxx)
        take_y = T.band(expect, cyy)
        take_d = T.band(expect, digit)
        lead = T.band(expect, opch, at_start)
        take_slash = T.band(after_digit, slash)
        take_den = T.band(after_slash, nz)
        op_after = T.band(T.bor(after_digit, done), opch)
        cx = T.ite(take_x, sign, cx)
        cy = T.ite(take_y, sign, cy)
        k = T.ite(take_d, T.fbin("fmul", sign, dval), T.ite(take_den, T.fbin("fdiv", T.fbin("fmul", ksign, num), dval), k))
        num = T.ite(take_d, dval, num)
        ksign = T.ite(take_d, sign, ksign)
        seen_x = T.bor(seen_x, take_x)
        seen_y = T.bor(seen_y, take_y)
        seen_k = T.bor(seen_k, take_d)
        sign = T.ite(T.bor(lead, op_after), newsign, T.ite(T.bor(take_x, take_y, take_d), 1.0, sign))
        n_expect = T.ite(T.bor(take_x, take_y, take_d), FALSE, T.ite(op_after, TRUE, expect))
        n_after_digit = T.ite(take_d, TRUE, T.ite(T.bor(take_slash, op_after), FALSE, after_digit))
        n_after_slash = T.ite(take_slash, TRUE, T.ite(take_den, FALSE, after_slash))
        at_start = T.band(at_start, sp)
        expect, after_digit, after_slash = n_expect, n_after_digit, n_after_slash
    valid = T.band(ok, T.bnot(expect), T.bnot(after_slash))
    return valid, cx, cy, k


def c17(res, tier, seed):
    ex = E.load()
    f_op = E.find_fn(ex, r"^transform::.*::from_operations$")
    qs = []
    lens = (1, 2, 3, 4, 5) if tier == "quick" else (1, 2, 3, 4, 5, 6, 7)
    for L in lens:
        for which in (0, 1):
            chars = [T.var("c%d" % i, "I") for i in range(L)]
            dom = []
            for cvar in chars:
                dom += [T.icmp("ile", 0, cvar), T.icmp("ile", cvar, 127)]
                for bad in ",()":
                    dom.append(T.bnot(T.icmp("ieq", cvar, ord(bad))))
            other = [ord("y")] if which == 0 else [ord("x")]
            full = (chars + [ord(",")] + other) if which == 0 else (other + [ord(",")] + chars)
            inp = Agg("str", [tuple([ord("(")] + full + [ord(")")])])
            np0 = len(ex.panics)
            try:
                rv, pc, _ = E.run(ex, f_op, [E.ByRef(inp)])
            except Unsupported as e:
                q = Query("parser executable for %d symbolic characters in component %d" % (L, which), [True], meta=dict(unsupported=str(e)[:300]))
                qs.append(q)
                continue
            pans = [p for p in ex.panics[np0:] if p[1] != "unreachable"]
            valid, cx, cy, k = ref_component(chars)
            oks = [(c, f[0]) for c, vn, f in rv.alts if vn == "Ok"]
            is_ok = T.bor(*[c for c, _ in oks])
            qs.append(Query("component %d, %d characters: every string of the grammar is accepted" % (which, L), dom + pc + [valid, T.bnot(is_ok)], timeout=120, meta=dict(L=L, which=which, fn="Transform2::from_operations"),
                            witness=dom + [valid]))
            if oks:
                from mirexec import merge_values
                mat = merge_values(oks) if len(oks) > 1 else oks[0][1]
                M = mat.fields[0].fields
                row = M[0:3] if which == 0 else M[3:6]
                orow = M[3:6] if which == 0 else M[0:3]
                oexp = (0.0, 1.0, 0.0) if which == 0 else (1.0, 0.0, 0.0)
                qs.append(Query("component %d, %d characters: the parsed row is (coef x, coef y, constant) of the expression, the other row and the bottom row are untouched" % (which, L),
                                dom + pc + [valid, is_ok, T.bor(neq_any([(row[0], cx), (row[1], cy), (row[2], k)]), neq_any(list(zip(orow, oexp))), neq_any(list(zip(M[6:9], (0.0, 0.0, 0.0)))))], timeout=120,
                                meta=dict(L=L, which=which, fn="Transform2::from_operations"), witness=dom + [valid]))
            pcond = T.bor(*[T.band(*p[0]) for p in pans]) if pans else False
            qs.append(Query("component %d, %d arbitrary characters: no panic (the result is Ok or Err)" % (which, L), dom + [pcond], timeout=60, meta=dict(L=L, which=which, panics=[p[1][:50] for p in pans][:5])))
    # dimension count: one component and three components are errors
    for txt, want in (("(x)", "Err"), ("(x, y, x)", "Err"), ("x,y", "Ok"), ("", "Err")):
        rv, pc, _ = E.run(ex, f_op, [E.ByRef(Agg("str", [txt]))])
        got = rv.alts[0][1] if rv.concrete() else "?"
        qs.append(Query("%r is %s" % (txt, want), [got != want], meta=dict(input=txt, got=got), nontrivial=False))
    done = run_queries(qs)

    def replay(q):
        L, which = q.meta.get("L"), q.meta.get("which")
        if L is None:
            return None
        m = q.model
        chs = []
        for i in range(L):
            v = m.get("c%d" % i)
            if v is None:
                v = 32
            chs.append(chr(int(v)))
        comp = "".join(chs)
        text = "(%s,y)" % comp if which == 0 else "(x,%s)" % comp
        out = native_eval([dict(fn="Transform2::from_operations", args=[text])])[0]
        # independent concrete evaluation of the grammar
        want = py_parse_component(comp)
        if out.get("panic"):
            return ("violated", "Transform2::from_operations(%r) panics" % text, dict(kind="eval", fn="Transform2::from_operations", input=text), dict(clause="parser-panic"))
        if want is not None:
            if "ok" not in out:
                return ("violated", "Transform2::from_operations(%r) is an error although the component is in the grammar (denotes %s)" % (text, want), dict(kind="eval", fn="Transform2::from_operations", input=text), dict(clause="parser-rejects"))
            M = [unjf(v) for v in out["ok"]]
            row = M[0:3] if which == 0 else M[3:6]
            if any(abs(r_ - w_) > 1e-12 for r_, w_ in zip(row, want)):
                return ("violated", "Transform2::from_operations(%r) gives row %s, the expression denotes %s" % (text, row, list(want)), dict(kind="eval", fn="Transform2::from_operations", input=text), dict(clause="parser-denotation"))
        return ("spurious", "real parser agrees with the grammar on %r" % text)
    for qq in done:
        record(res, qq, replay)
    res.functions = used_fns(ex)
    res.stubs = summaries_used()
    res.bounds = ["components of %s characters over the ASCII range (commas and parentheses excluded inside a component), each of the two components in turn with the other fixed; front end (trim/split) on concrete separators" % (list(lens),)]
    res.assumptions = ["grammar: optional sign, terms x | y | d | d/d' (d' non-zero), joined by + or -, spaces anywhere, each of x, y, constant at most once ('*' and multi-digit numbers are outside the stated grammar)",
                       "non-ASCII input only through 'any other scalar value takes the error arm'"]


def py_parse_component(comp):
    """concrete reference: -> (cx, cy, k) or None if not in the grammar"""
    import re as _re
    s_ = comp.replace(" ", "")
    if not s_:
        return None
    toks = _re.findall(r"[+-]|x|y|\d/[1-9]|\d|.", s_)
    cx = cy = k = 0.0
    sx = sy = sk = False
    sign = 1.0
    expect = True
    first = True
    for tk in toks:
        if tk in "+-":
            if not (first or not expect):
                return None
            if first and not expect:
                return None
            sign = -1.0 if tk == "-" else 1.0
            expect = True
            first = False
            continue
        first = False
        if not expect:
            return None
        if tk == "x":
            if sx:
                return None
            cx, sx = sign, True
        elif tk == "y":
            if sy:
                return None
            cy, sy = sign, True
        elif _re.fullmatch(r"\d/[1-9]", tk):
            if sk:
                return None
            k, sk = sign * int(tk[0]) / int(tk[2]), True
        elif _re.fullmatch(r"\d", tk):
            if sk:
                return None
            k, sk = sign * int(tk), True
        else:
            return None
        sign = 1.0
        expect = False
    if expect:
        return None
    return (cx, cy, k)


PROPS = {"C12": c12, "C13": c13, "C14": c14, "C15": c15, "C16": c16, "C04": c04, "C10": c10, "C03": c03, "C02": c02, "C08": c08, "C09": c09, "C01": c01_entry, "C17": c17}







def run(prop, tier, seed, only=None):
    res = Result(prop, tier, seed)
    if prop not in PROPS:
        raise SystemExit("no check for " + prop)
    try:
        PROPS[prop](res, tier, seed)
    except Unsupported as e:
        res.ob("mir-execution", "mirsym", "undischarged", "unsupported MIR construct: %s" % e)
        res.notes.append("the MIR engine met a construct outside its subset; nothing is claimed for the affected obligations")
    drops = [d_ for ex_ in E.LOADED for d_ in getattr(ex_, "cast_dropped", [])]
    if drops:
        rngs = sorted(set(tuple(d_["range"]) for d_ in drops))
        res.bounds = list(res.bounds) + ["a symbolic float cast to an integer (%s) is followed for the integer values %s only; states in which it takes another value are outside the claim" % (
            ", ".join(sorted(set(d_["fn"].split("::")[-1] for d_ in drops))), " / ".join("%d..%d" % r_ for r_ in rngs))]
    return res
