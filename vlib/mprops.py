"""Properties decided by the MIR engine (mirsym): symbolic execution of the crate's MIR + z3."""
import os, sys, json, math, time, itertools
sys.path.insert(0, os.path.join(os.path.dirname(os.path.dirname(os.path.abspath(__file__))), "mirsym"))
import terms as T
import engine as E
import states as S
import summaries
from mirexec import Agg, Enum, Ref, Unsupported, mk_enum
from core import Result
from mq import Query, run_queries, record, native_eval, jf, unjf

F = E.fvar


def fn_span(ex, fn):
    return "%s (MIR lines %d-%d, %d blocks)" % (fn.name, fn.line, fn.end_line, len(fn.blocks))


def used_fns(ex):
    by = {f.name: f for f in ex.fns}
    return sorted(fn_span(ex, by[n]) for n in ex.stats["fns"] if n in by)


def summaries_used():
    return ["%s :: %s" % (rx, doc) for rx, doc in summaries.NAMES]


# ------------------------------------------------------------------------------ symbolic values

def pt(p):
    return S.point(F(p + "x"), F(p + "y"))


def sym_line(p):
    return Agg("struct:Line2", [pt(p + "s"), pt(p + "e")])


def sym_atom(p):
    return Agg("struct:Atom2", [pt(p), F(p + "r")])


def sym_lj(p, cutoff="sym"):
    if cutoff == "sym":
        has = T.var(p + "hascut", "B")
        cut = Enum("Option", [(has, "Some", [F(p + "cut")]), (T.bnot(has), "None", [])])
    elif cutoff is None:
        cut = mk_enum("Option", "None", [])
    else:
        cut = mk_enum("Option", "Some", [cutoff])
    return Agg("struct:LJ2", [pt(p), F(p + "sigma"), F(p + "eps"), cut])


def rigid(p, reflect=False, last=1.0):
    """symbolic rigid motion / reflection as a Transform2; returns (value, constraints)"""
    c, s, tx, ty = F(p + "c"), F(p + "s"), F(p + "tx"), F(p + "ty")
    if reflect:
        m = [c, s, tx, s, T.fun("fneg", c), ty, 0.0, 0.0, last]
    else:
        m = [c, T.fun("fneg", s), tx, s, c, ty, 0.0, 0.0, last]
    unit = T.fcmp("feq", T.fbin("fadd", T.fbin("fmul", c, c), T.fbin("fmul", s, s)), 1.0)
    return S.transform2(m), [unit]


def xor(a, b):
    return T.bnot(T.beq(a, b))


def line_vals(m, p):
    return [m.get(p + "sx", 0.0), m.get(p + "sy", 0.0), m.get(p + "ex", 0.0), m.get(p + "ey", 0.0)]


# ------------------------------------------------------------------------------ C12

def c12(res, tier, seed):
    ex = E.load()
    qs = []
    f_atom = E.find_fn(ex, r"^atom2::.*::intersects$")
    f_line = E.find_fn(ex, r"^line2::.*::intersects$")
    f_mol = E.find_fn(ex, r"^molecular_shape2::.*::intersects$")
    f_ls = E.find_fn(ex, r"^line_shape::.*::intersects$")
    f_mol_tr = E.find_fn(ex, r"^molecular_shape2::.*::transform$")
    f_ls_tr = E.find_fn(ex, r"^line_shape::.*::transform$")

    # ---- discs
    a, b = sym_atom("a"), sym_atom("b")
    code_ab, pc, _ = E.run(ex, f_atom, [E.ByRef(a), E.ByRef(b)])
    code_ba, _, _ = E.run(ex, f_atom, [E.ByRef(b), E.ByRef(a)])
    ax, ay, ar = a.fields[0].fields[0], a.fields[0].fields[1], a.fields[1]
    bx, by, br = b.fields[0].fields[0], b.fields[0].fields[1], b.fields[1]
    dx, dy = T.fbin("fsub", ax, bx), T.fbin("fsub", ay, by)
    d2 = T.fbin("fadd", T.fbin("fmul", dx, dx), T.fbin("fmul", dy, dy))
    rs = T.fbin("fadd", ar, br)
    ref = T.fcmp("flt", d2, T.fbin("fmul", rs, rs))
    nonneg = [T.fcmp("fle", 0.0, ar), T.fcmp("fle", 0.0, br)]
    # reference: open discs meet  <=>  exists point p with |p-a|<ra and |p-b|<rb  <=>  |a-b| < ra+rb.
    qs.append(Query("disc: code == (|a-b|^2 < (ra+rb)^2)", nonneg + pc + [xor(code_ab, ref)], meta=dict(fn="Atom2::intersects")))
    # the witness-point direction: if the code says yes there is a common interior point (on the
    # centre line at fraction ra/(ra+rb)); if it says no and a point lies in both discs -> contradiction
    px, py = F("px"), F("py")
    inA = T.fcmp("flt", T.fbin("fadd", T.fbin("fmul", T.fbin("fsub", px, ax), T.fbin("fsub", px, ax)), T.fbin("fmul", T.fbin("fsub", py, ay), T.fbin("fsub", py, ay))), T.fbin("fmul", ar, ar))
    inB = T.fcmp("flt", T.fbin("fadd", T.fbin("fmul", T.fbin("fsub", px, bx), T.fbin("fsub", px, bx)), T.fbin("fmul", T.fbin("fsub", py, by), T.fbin("fsub", py, by))), T.fbin("fmul", br, br))
    # w.l.o.g. a at the origin and b on the x axis (justified by the rigid-motion obligations below)
    wl = [T.fcmp("feq", ax, 0.0), T.fcmp("feq", ay, 0.0), T.fcmp("feq", by, 0.0), T.fcmp("fle", 0.0, bx)]
    qs.append(Query("disc: code says no => no common interior point (a at origin, b on the x axis)", nonneg + wl + pc + [T.bnot(code_ab), inA, inB], timeout=120,
                    meta=dict(fn="Atom2::intersects"), witness=nonneg + wl + [T.bnot(code_ab)]))
    lam = F("lam")
    wx = T.fbin("fadd", ax, T.fbin("fmul", lam, T.fbin("fsub", bx, ax)))
    wy = T.fbin("fadd", ay, T.fbin("fmul", lam, T.fbin("fsub", by, ay)))
    inAw = T.fcmp("flt", T.fbin("fmul", T.fbin("fmul", lam, lam), d2), T.fbin("fmul", ar, ar))
    oml = T.fbin("fsub", 1.0, lam)
    inBw = T.fcmp("flt", T.fbin("fmul", T.fbin("fmul", oml, oml), d2), T.fbin("fmul", br, br))
    # choose lam = ra/(ra+rb) (when ra+rb>0): then both hold iff d < ra+rb
    qs.append(Query("disc: code says yes => point at fraction ra/(ra+rb) is interior to both",
                    nonneg + pc + [code_ab, T.fcmp("flt", 0.0, ar), T.fcmp("flt", 0.0, br), T.fcmp("feq", T.fbin("fmul", lam, rs), ar), T.bnot(T.band(inAw, inBw))],
                    timeout=120, meta=dict(fn="Atom2::intersects"), witness=nonneg + [code_ab]))
    qs.append(Query("disc: swap symmetry", pc + [xor(code_ab, code_ba)], meta=dict(fn="Atom2::intersects")))

    # ---- molecules: any pair of the 3x3 component discs; rigid motions through the real transform code
    def sym_mol(p, n):
        return Agg("struct:MolecularShape2", [Agg("str", ["m"]), Agg("vec", [sym_atom("%s%d" % (p, i)) for i in range(n)])])
    for n in ((1, 3) if tier == "quick" else (1, 2, 3)):
        ma, mb = sym_mol("a", n), sym_mol("b", n)
        code_m, pcm, _ = E.run(ex, f_mol, [E.ByRef(ma), E.ByRef(mb)])
        code_m_sw, _, _ = E.run(ex, f_mol, [E.ByRef(mb), E.ByRef(ma)])
        refs = []
        for i in range(n):
            for j in range(n):
                r1, _, _ = E.run(ex, f_atom, [E.ByRef(ma.fields[1].fields[i]), E.ByRef(mb.fields[1].fields[j])])
                refs.append(r1)
        qs.append(Query("molecule(%d): shape test == OR over all %d disc pairs" % (n, n * n), pcm + [xor(code_m, T.bor(*refs))], meta=dict(fn="MolecularShape2::intersects")))
        qs.append(Query("molecule(%d): swap symmetry" % n, pcm + [xor(code_m, code_m_sw)], meta=dict(fn="MolecularShape2::intersects")))
    for refl in (False, True):
        for last in (1.0, 0.0):
            tr, cons = rigid("g", refl, last)
            ma, mb = sym_mol("a", 1), sym_mol("b", 1)
            ta, pca, _ = E.run(ex, f_mol_tr, [E.ByRef(ma), E.ByRef(tr)])
            tb, pcb, _ = E.run(ex, f_mol_tr, [E.ByRef(mb), E.ByRef(tr)])
            c0, _, _ = E.run(ex, f_mol, [E.ByRef(ma), E.ByRef(mb)])
            c1, _, _ = E.run(ex, f_mol, [E.ByRef(ta), E.ByRef(tb)])
            qs.append(Query("disc: invariant under common %s (transform via MolecularShape2::transform, bottom row (0,0,%g))" % ("reflection" if refl else "rotation+translation", last),
                            cons + pca + pcb + [xor(c0, c1)], timeout=120, meta=dict(fn="MolecularShape2::transform + intersects")))

    # ---- segments
    la, lb = sym_line("a"), sym_line("b")
    code_l, pcl, _ = E.run(ex, f_line, [E.ByRef(la), E.ByRef(lb)])
    code_l_sw, _, _ = E.run(ex, f_line, [E.ByRef(lb), E.ByRef(la)])
    asx, asy, aex, aey = [la.fields[i].fields[j] for i in (0, 1) for j in (0, 1)]
    bsx, bsy, bex, bey = [lb.fields[i].fields[j] for i in (0, 1) for j in (0, 1)]
    adx, ady = T.fbin("fsub", aex, asx), T.fbin("fsub", aey, asy)
    bdx, bdy = T.fbin("fsub", bex, bsx), T.fbin("fsub", bey, bsy)
    den = T.fbin("fsub", T.fbin("fmul", bdy, adx), T.fbin("fmul", bdx, ady))
    sx, sy = T.fbin("fsub", asx, bsx), T.fbin("fsub", asy, bsy)
    ua = F("ua")
    ub = F("ub")
    # reference: non-parallel and the unique solution (ua,ub) of a.s+ua*da = b.s+ub*db lies in [0,1]^2
    sol = [T.fcmp("feq", T.fbin("fadd", asx, T.fbin("fmul", ua, adx)), T.fbin("fadd", bsx, T.fbin("fmul", ub, bdx))),
           T.fcmp("feq", T.fbin("fadd", asy, T.fbin("fmul", ua, ady)), T.fbin("fadd", bsy, T.fbin("fmul", ub, bdy)))]
    inunit = T.band(T.fcmp("fle", 0.0, ua), T.fcmp("fle", ua, 1.0), T.fcmp("fle", 0.0, ub), T.fcmp("fle", ub, 1.0))
    nonpar = T.bnot(T.fcmp("feq", den, 0.0))
    qs.append(Query("segment: code yes => non-parallel", pcl + [code_l, T.bnot(nonpar)], meta=dict(fn="Line2::intersects")))
    qs.append(Query("segment: for non-parallel segments with common point a.s+ua*da = b.s+ub*db: code == (ua,ub in [0,1])",
                    pcl + [nonpar] + sol + [xor(code_l, inunit)], timeout=120, meta=dict(fn="Line2::intersects"),
                    witness=[nonpar] + sol + [inunit]))
    qs.append(Query("segment: parallel => code no", pcl + [T.fcmp("feq", den, 0.0), code_l], meta=dict(fn="Line2::intersects")))
    qs.append(Query("segment: swap symmetry (reals)", pcl + [xor(code_l, code_l_sw)], meta=dict(fn="Line2::intersects")))
    # bit-precise swap symmetry: the float expressions are exact negations of each other
    qs.append(Query("segment: swap symmetry (IEEE-754 doubles, finite inputs)", pcl + [xor(code_l, code_l_sw)] + [T.band(T.fcmp("fle", -1e6, v), T.fcmp("fle", v, 1e6)) for v in (asx, asy, aex, aey, bsx, bsy, bex, bey)],
                    mode="F", timeout=60 if tier == "quick" else 900, meta=dict(fn="Line2::intersects")))
    f_line_mul = [f for f in ex.fns if f.name.startswith("line2_ops::") and f.name.endswith("::mul") and "&line2::Line2" in f.args[0][1] and "&transform::Transform2" in f.args[1][1]]
    for refl in (False, True):
        tr, cons = rigid("g", refl, 0.0)
        ta, p1, _ = E.run(ex, f_line_mul[0], [E.ByRef(la), E.ByRef(tr)])
        tb, p2, _ = E.run(ex, f_line_mul[0], [E.ByRef(lb), E.ByRef(tr)])
        c1, p3, _ = E.run(ex, f_line, [E.ByRef(ta), E.ByRef(tb)])
        qs.append(Query("segment: invariant under common %s (via Line2 * Transform2)" % ("reflection" if refl else "rotation+translation"),
                        cons + pcl + p1 + p2 + p3 + [xor(code_l, c1)], timeout=180 if tier == "quick" else 900, meta=dict(fn="line2_ops::mul + Line2::intersects")))

    # ---- polygons: LineShape::intersects == OR over edge pairs; lemma L(n)
    data = S.real_data()
    ns = (3, 4, 6) if tier == "quick" else (3, 4, 5, 6, 8)
    for n in ns:
        shape = S.shape_value(data["shapes"]["polygon%d" % n])
        raw_items = shape.fields[1].fields
        # from_radial computes an edge's end as sin(angle+dtheta) and the next edge's start as
        # sin((i+1)*dtheta): they can differ in the last bit, leaving gaps of ~1e-16 between
        # consecutive edges.  Far below the 1e-9 tolerance; the lemma is stated for the closed
        # polygon through the edge starts, and the gap size is checked here (concretely).
        gap = 0.0
        items = []
        for i, e in enumerate(raw_items):
            nxt = raw_items[(i + 1) % n]
            gap = max(gap, abs(e.fields[1].fields[0] - nxt.fields[0].fields[0]), abs(e.fields[1].fields[1] - nxt.fields[0].fields[1]))
            items.append(Agg("struct:Line2", [e.fields[0], nxt.fields[0]]))
        qs.append(Query("polygon(%d): consecutive edges of LineShape::polygon meet within 1e-12 (max gap %.3g)" % (n, gap), [gap > 1e-12], meta=dict(fn="LineShape::from_radial (native data)"), nontrivial=False))
        # inside(P): left of every edge (vertices are ordered clockwise: start=(0,1) -> (1,0))
        def side(e, qx, qy):
            s0, e0 = e.fields[0].fields, e.fields[1].fields
            ex_, ey_ = e0[0] - s0[0], e0[1] - s0[1]
            return T.fbin("fsub", T.fbin("fmul", ex_, T.fbin("fsub", qy, s0[1])), T.fbin("fmul", ey_, T.fbin("fsub", qx, s0[0])))
        # orientation: centre (0,0) is strictly inside
        sgn = 1.0 if all((lambda v: v)(float(T.evaluate(side(e, 0.0, 0.0), {}))) > 0 for e in items) else -1.0
        P = (F("px"), F("py"))
        Qp = (F("qx"), F("qy"))
        inP = [T.fcmp("flt", 0.0, T.fbin("fmul", sgn, side(e, *P))) for e in items]
        outQ = T.bor(*[T.fcmp("fle", T.fbin("fmul", sgn, side(e, *Qp)), 0.0) for e in items])
        seg = Agg("struct:Line2", [S.point(*P), S.point(*Qp)])
        for order in ("seg,edge", "edge,seg"):
            hits = []
            pcs = []
            for e in items:
                args = [E.ByRef(seg), E.ByRef(e)] if order == "seg,edge" else [E.ByRef(e), E.ByRef(seg)]
                h, p, _ = E.run(ex, f_line, args)
                hits.append(h)
                pcs += p
            # parallel-to-an-edge segments are the documented blind spot of the edge test: the
            # lemma is about segments not parallel to the edge they leave through; generic
            # position is expressed by excluding exact parallelism with every edge.
            notpar = []
            for e in items:
                s0, e0 = e.fields[0].fields, e.fields[1].fields
                ex_, ey_ = e0[0] - s0[0], e0[1] - s0[1]
                notpar.append(T.bnot(T.fcmp("feq", T.fbin("fsub", T.fbin("fmul", ey_, T.fbin("fsub", Qp[0], P[0])), T.fbin("fmul", ex_, T.fbin("fsub", Qp[1], P[1]))), 0.0)))
            qs.append(Query("polygon L(%d) [%s]: a segment from strictly inside to not strictly inside, parallel to no edge, is reported as crossing an edge" % (n, order),
                            pcs + inP + [outQ] + notpar + [T.bnot(T.bor(*hits))], timeout=120 if tier == "quick" else 900,
                            meta=dict(fn="Line2::intersects x %d edges of LineShape::polygon(%d)" % (n, n)), witness=inP + [outQ] + notpar))
        if n <= 4 or tier == "thorough":
            # LineShape::intersects is exactly the OR over all edge pairs
            def sym_poly(p):
                return Agg("struct:LineShape", [Agg("str", ["p"]), Agg("vec", [sym_line("%s%d" % (p, i)) for i in range(n)])])
            pa, pb = sym_poly("a"), sym_poly("b")
            cs, pcs2, _ = E.run(ex, f_ls, [E.ByRef(pa), E.ByRef(pb)])
            refs = []
            for i in range(n):
                for j in range(n):
                    r1, _, _ = E.run(ex, f_line, [E.ByRef(pa.fields[1].fields[i]), E.ByRef(pb.fields[1].fields[j])])
                    refs.append(r1)
            qs.append(Query("polygon(%d): shape test == OR over all %d edge pairs" % (n, n * n), pcs2 + [xor(cs, T.bor(*refs))], meta=dict(fn="LineShape::intersects")))

    # ---- encoder validation against the real functions (path-covering models + repo test vectors)
    val = validate_kernels(ex, f_line, f_atom, code_l, code_ab, la, lb, a, b)
    done = run_queries(qs)

    def replay(q):
        m = q.model
        if "Line2" in q.meta.get("fn", "") and "segment: swap" in q.name:
            A, Bv = line_vals(m, "a"), line_vals(m, "b")
            for prof in ("debug", "release"):
                r = native_eval([dict(fn="Line2::intersects", args=[list(map(jf, A)), list(map(jf, Bv))]), dict(fn="Line2::intersects", args=[list(map(jf, Bv)), list(map(jf, A))])], prof)
                if r[0] == r[1]:
                    return ("spurious", "real function is symmetric on the model (rounded to doubles)")
            return ("violated", "Line2::intersects(a,b) != intersects(b,a) for a=%s b=%s" % (A, Bv), dict(kind="eval", fn="Line2::intersects", a=A, b=Bv), dict(clause="swap", fn="Line2::intersects"))
        if q.name.startswith("disc: swap"):
            A = [m.get("ax", 0.), m.get("ay", 0.), m.get("ar", 0.)]
            Bv = [m.get("bx", 0.), m.get("by", 0.), m.get("br", 0.)]
            r = native_eval([dict(fn="Atom2::intersects", args=[A, Bv]), dict(fn="Atom2::intersects", args=[Bv, A])])
            if r[0] != r[1]:
                return ("violated", "Atom2::intersects not symmetric for %s %s" % (A, Bv), dict(kind="eval", fn="Atom2::intersects", a=A, b=Bv), dict(clause="swap", fn="Atom2::intersects"))
            return ("spurious", "symmetric natively")
        if q.name.startswith("disc: code =="):
            A = [m.get("ax", 0.), m.get("ay", 0.), m.get("ar", 0.)]
            Bv = [m.get("bx", 0.), m.get("by", 0.), m.get("br", 0.)]
            r = native_eval([dict(fn="Atom2::intersects", args=[A, Bv])])[0]
            d = math.hypot(A[0] - Bv[0], A[1] - Bv[1])
            truth = d < A[2] + Bv[2]
            margin = abs(d - (A[2] + Bv[2]))
            if r != truth and margin > 1e-9:
                return ("violated", "Atom2::intersects(%s,%s)=%s but centre distance %.12g vs radii sum %.12g" % (A, Bv, r, d, A[2] + Bv[2]),
                        dict(kind="eval", fn="Atom2::intersects", a=A, b=Bv), dict(clause="disc-geometry", fn="Atom2::intersects"))
            return ("spurious", "agrees natively (margin %.3g)" % margin)
        if q.name.startswith("segment:") or q.name.startswith("polygon L"):
            # evaluate the real function on the model and compare with exact rational geometry
            return replay_segment(q)
        return None

    for q in done:
        record(res, q, replay)
    res.functions = used_fns(ex)
    res.stubs = summaries_used()
    res.extra["encoder_validation"] = val
    if not val["ok"]:
        res.notes.append("ENCODER VALIDATION FAILED: results of this run are inconclusive")
        for o in res.obligations:
            if o["status"] == "discharged":
                o["status"] = "undischarged"
                o["detail"] += " (encoder validation failed)"
    res.bounds = ["regular polygons n in %s for L(n); molecules of <= 3 discs; all reals (R-mode) / all doubles in [-1e6,1e6] (F-mode swap symmetry)" % (list(ns),),
                  "L(n) is about the canonical polygon produced by LineShape::polygon(n) (vertices rounded: |v|<1e-15 -> 0); placements elsewhere follow from the rigid-motion invariance obligations"]
    res.assumptions = ["R-mode: every f64 operation is the exact real operation; rounding is outside the claim except for the F-mode obligation",
                       "from L(n) to shapes: two congruent convex polygons with intersecting interiors are not nested, so the boundary of one has a point strictly inside and a point not inside the other (paper argument, not machine-checked)",
                       "segments exactly parallel to the edge they cross (sliding contact) are outside L(n)"]


def replay_segment(q):
    from fractions import Fraction as Fr
    m = q.model
    if q.name.startswith("polygon L"):
        return None
    A, Bv = line_vals(m, "a"), line_vals(m, "b")
    if any(v is None for v in A + Bv):
        return ("spurious", "model not numeric")
    r = native_eval([dict(fn="Line2::intersects", args=[list(map(jf, A)), list(map(jf, Bv))])])[0]
    a = [Fr(x) for x in A]
    b = [Fr(x) for x in Bv]
    adx, ady, bdx, bdy = a[2] - a[0], a[3] - a[1], b[2] - b[0], b[3] - b[1]
    den = bdy * adx - bdx * ady
    if den == 0:
        truth = False
        margin = 1.0
    else:
        ua = (bdx * (a[1] - b[1]) - bdy * (a[0] - b[0])) / den
        ub = (adx * (a[1] - b[1]) - ady * (a[0] - b[0])) / den
        truth = 0 <= ua <= 1 and 0 <= ub <= 1
        margin = float(min(abs(ua), abs(ua - 1), abs(ub), abs(ub - 1)))
    if r != truth and margin > 1e-9:
        return ("violated", "Line2::intersects(%s,%s)=%s, exact geometry says %s" % (A, Bv, r, truth), dict(kind="eval", fn="Line2::intersects", a=A, b=Bv), dict(clause="segment-geometry", fn="Line2::intersects"))
    return ("spurious", "agrees with exact rational geometry on the rounded model (margin %.3g)" % margin)


def validate_kernels(ex, f_line, f_atom, code_l, code_ab, la, lb, a, b):
    """Push concrete vectors through the real functions and through the encoding."""
    vecs_l = [([-1, 0, 0, -1], [-1, -1, 0, 0]), ([-2, -1, 1, 0], [-1, -1, 0, 0]), ([-1, 0, 0, -1], [-2, -1, 1, 0]),
              ([0, 0, 1, 1], [0, 1, 1, 0]), ([0, 0, 1, 0], [0, 1, 1, 1]), ([0, 0, 1, 1], [2, 2, 3, 3]), ([0, 0, 2, 0], [1, 0, 1, 1]),
              ([0, 0, 1, 0], [1, 0, 1, 1]), ([0.3, 0.1, 0.9, 0.7], [0.2, 0.8, 0.8, 0.1]), ([0, 0, 1e-3, 1], [-5, 0.5, 5, 0.5])]
    vecs_a = [([0, 0, 1], [0.5, 0, 1]), ([0, 0, 1], [2, 0, 1]), ([0, 0, 1], [2.01, 0, 1]), ([0, 0, 0.7071067811865476], [1, 1, 0.7071067811865476]),
              ([0, 0, 0.7071067811865476], [1, 1, 0.7071067811865471]), ([1, 2, 0.5], [1.3, 2.4, 0.1])]
    reqs = [dict(fn="Line2::intersects", args=[x, y]) for x, y in vecs_l] + [dict(fn="Atom2::intersects", args=[x, y]) for x, y in vecs_a]
    real = native_eval(reqs)
    bad = []
    for i, (x, y) in enumerate(vecs_l):
        env = dict(asx=x[0], asy=x[1], aex=x[2], aey=x[3], bsx=y[0], bsy=y[1], bex=y[2], bey=y[3])
        enc = T.evaluate(code_l, {k: float(v) for k, v in env.items()})
        if enc != real[i]:
            bad.append(("Line2::intersects", x, y, enc, real[i]))
    for j, (x, y) in enumerate(vecs_a):
        env = dict(ax=x[0], ay=x[1], ar=x[2], bx=y[0], by=y[1], br=y[2])
        enc = T.evaluate(code_ab, {k: float(v) for k, v in env.items()})
        if enc != real[len(vecs_l) + j]:
            bad.append(("Atom2::intersects", x, y, enc, real[len(vecs_l) + j]))
    return dict(ok=not bad, vectors=len(reqs), mismatches=bad[:5])


# ------------------------------------------------------------------------------ C13

def lj_fields(v):
    p = v.fields[0].fields
    return p[0], p[1], v.fields[1], v.fields[2]


def lj_ref(x1, y1, x2, y2, sigma, eps, cut):
    """independent reference: shifted truncated 12-6 law in terms of r^2 (no square root)"""
    dx, dy = T.fbin("fsub", x1, x2), T.fbin("fsub", y1, y2)
    r2 = T.fbin("fadd", T.fbin("fmul", dx, dx), T.fbin("fmul", dy, dy))

    def lj(s2_over_r2):
        t3 = T.fbin("fmul", T.fbin("fmul", s2_over_r2, s2_over_r2), s2_over_r2)
        return T.fbin("fmul", T.fbin("fmul", 4.0, eps), T.fbin("fsub", T.fbin("fmul", t3, t3), t3))
    s2 = T.fbin("fmul", sigma, sigma)
    e_un = lj(T.fbin("fdiv", s2, r2))
    if cut is None:
        return e_un, r2
    c2 = T.fbin("fmul", cut, cut)
    shift = lj(T.fbin("fdiv", s2, c2))
    return T.ite(T.fcmp("flt", r2, c2), T.fbin("fsub", e_un, shift), 0.0), r2


def c13(res, tier, seed):
    ex = E.load()
    qs = []
    f_en = E.find_fn(ex, r"^lj2::.*::energy$")
    f_sh = E.find_fn(ex, r"^lj_shape::<impl at [^>]*>::energy$")
    a_un, b_un = sym_lj("a", None), sym_lj("b", None)
    e_un, pc_un, _ = E.run(ex, f_en, [E.ByRef(a_un), E.ByRef(b_un)])
    ax, ay, asig, aeps = lj_fields(a_un)
    bx, by, bsig, beps = lj_fields(b_un)
    ref_un, r2 = lj_ref(ax, ay, bx, by, asig, aeps, None)
    pos = [T.fcmp("flt", 0.0, r2), T.fcmp("flt", 0.0, asig), T.fcmp("flt", 0.0, aeps)]
    qs.append(Query("uncut: energy == 4 eps ((s/r)^12 - (s/r)^6)", pos + pc_un + [T.bnot(T.fcmp("feq", e_un, ref_un))], timeout=120, meta=dict(fn="LJ2::energy"), witness=pos))
    cutv = F("cut")
    a_c, b_c = sym_lj("a", cutv), sym_lj("b", cutv)
    e_c, pc_c, _ = E.run(ex, f_en, [E.ByRef(a_c), E.ByRef(b_c)])
    ref_c, _ = lj_ref(ax, ay, bx, by, asig, aeps, cutv)
    posc = pos + [T.fcmp("flt", 0.0, cutv)]
    qs.append(Query("cut: energy == shifted law inside the cutoff, 0 beyond", posc + pc_c + [T.bnot(T.fcmp("feq", e_c, ref_c))], timeout=120, meta=dict(fn="LJ2::energy"), witness=posc))
    c2 = T.fbin("fmul", cutv, cutv)
    qs.append(Query("cut: exactly zero at and beyond the cutoff", posc + pc_c + [T.fcmp("fle", c2, r2), T.bnot(T.fcmp("feq", e_c, 0.0))], meta=dict(fn="LJ2::energy"), witness=posc + [T.fcmp("fle", c2, r2)]))
    # continuity at the cutoff: inside the cutoff the code equals g(r^2) - g(cut^2) with one and
    # the same rational function g (previous obligation), which tends to 0 as r -> cut; the limit
    # itself is not a solver obligation.
    # minimum of the uncut law: E >= -eps everywhere, E = -eps where (s^2/r^2)^3 = 1/2
    qs.append(Query("uncut: energy >= -eps for all r > 0", pos + pc_un + [T.fcmp("flt", e_un, T.fun("fneg", aeps))], timeout=180, meta=dict(fn="LJ2::energy"), witness=pos))
    t = T.fbin("fdiv", T.fbin("fmul", asig, asig), r2)
    t3 = T.fbin("fmul", T.fbin("fmul", t, t), t)
    qs.append(Query("uncut: energy == -eps where (sigma^2/r^2)^3 = 1/2, i.e. r = 2^(1/6) sigma", pos + pc_un + [T.fcmp("feq", T.fbin("fmul", 2.0, t3), 1.0), T.bnot(T.fcmp("feq", e_un, T.fun("fneg", aeps)))], timeout=180, meta=dict(fn="LJ2::energy"),
                    witness=pos + [T.fcmp("feq", T.fbin("fmul", 2.0, t3), 1.0)]))
    # depends on the positions only through the distance: common rigid motion / reflection via LJ2 * Transform2
    f_mul = [f for f in ex.fns if f.name.startswith("lj2_ops::") and f.name.endswith("::mul") and "&lj2::LJ2" in f.args[0][1] and "&transform::Transform2" in f.args[1][1]][0]
    a_s, b_s = sym_lj("a", "sym"), sym_lj("b", "sym")
    e_s, pc_s, _ = E.run(ex, f_en, [E.ByRef(a_s), E.ByRef(b_s)])
    for refl in (False, True):
        tr, cons = rigid("g", refl, 0.0)
        ta, p1, _ = E.run(ex, f_mul, [E.ByRef(a_s), E.ByRef(tr)])
        tb, p2, _ = E.run(ex, f_mul, [E.ByRef(b_s), E.ByRef(tr)])
        e_t, p3, _ = E.run(ex, f_en, [E.ByRef(ta), E.ByRef(tb)])
        # the transform must keep sigma/epsilon/cutoff
        same = T.band(T.fcmp("feq", ta.fields[1], a_s.fields[1]), T.fcmp("feq", ta.fields[2], a_s.fields[2]))
        qs.append(Query("transform keeps sigma, epsilon (%s)" % ("reflection" if refl else "rotation"), cons + p1 + [T.bnot(same)], meta=dict(fn="lj2_ops::mul")))
        qs.append(Query("energy invariant under a common %s" % ("reflection" if refl else "rotation+translation"), cons + pc_s + p1 + p2 + p3 + [T.fcmp("flt", 0.0, r2), T.bnot(T.fcmp("feq", e_s, e_t))], timeout=180, meta=dict(fn="lj2_ops::mul + LJ2::energy")))
    # symmetric in the two particles
    e_ba, pc_ba, _ = E.run(ex, f_en, [E.ByRef(b_s), E.ByRef(a_s)])
    cuts_equal = T.band(T.beq(T.var("ahascut", "B"), T.var("bhascut", "B")), T.fcmp("feq", F("acut"), F("bcut")))
    like = [T.fcmp("feq", asig, bsig), T.fcmp("feq", aeps, beps), cuts_equal]
    qs.append(Query("like particles: energy(a,b) == energy(b,a)", like + pc_s + pc_ba + [T.fcmp("flt", 0.0, r2), T.bnot(T.fcmp("feq", e_s, e_ba))], timeout=120, meta=dict(fn="LJ2::energy"), witness=like))
    physical = [T.fcmp("flt", 0.0, r2), T.fcmp("fle", 0.25, asig), T.fcmp("fle", asig, 4.0), T.fcmp("fle", 0.25, bsig), T.fcmp("fle", bsig, 4.0),
                T.fcmp("feq", aeps, 1.0), T.fcmp("feq", beps, 1.0), T.fcmp("fle", 0.25, r2), T.fcmp("fle", r2, 16.0),
                T.var("ahascut", "B"), T.var("bhascut", "B"), T.fcmp("feq", F("acut"), 3.5), T.fcmp("feq", F("bcut"), 3.5)]
    diff = T.fbin("fsub", e_s, e_ba)
    qs.append(Query("unlike particles: energy(a,b) == energy(b,a) (within 1e-9)", physical + pc_s + pc_ba + [T.bor(T.fcmp("flt", 1e-9, diff), T.fcmp("flt", diff, -1e-9))], timeout=120,
                    meta=dict(fn="LJ2::energy", expected="finding"), witness=physical))
    # molecule energy = sum over particle pairs
    def sym_ljshape(p, n):
        return Agg("struct:LJShape2", [Agg("str", ["m"]), Agg("vec", [sym_lj("%s%d" % (p, i), "sym") for i in range(n)])])
    for n in ((3,) if tier == "quick" else (1, 2, 3)):
        ma, mb = sym_ljshape("a", n), sym_ljshape("b", n)
        em, pcm, _ = E.run(ex, f_sh, [E.ByRef(ma), E.ByRef(mb)])
        parts = []
        pcs = []
        for i in range(n):
            for j in range(n):
                e1, p1, _ = E.run(ex, f_en, [E.ByRef(ma.fields[1].fields[i]), E.ByRef(mb.fields[1].fields[j])])
                parts.append(e1)
                pcs += p1
        # abstract each pair energy by a fresh real so the check is about the *sum structure*
        tot = parts[0]
        for p_ in parts[1:]:
            tot = T.fbin("fadd", tot, p_)
        qs.append(Query("molecule(%d): energy == sum over the %d particle pairs" % (n, n * n), pcm + pcs + [T.bnot(T.fcmp("feq", em, tot))], timeout=120, meta=dict(fn="LJShape2::energy")))

    val = validate_lj(ex, e_s, a_s, b_s)
    done = run_queries(qs)

    def replay(q):
        m = q.model
        def ljv(p):
            cut = m.get(p + "cut") if m.get(p + "hascut", False) else None
            return [m.get(p + "x", 0.0), m.get(p + "y", 0.0), m.get(p + "sigma", 1.0), m.get(p + "eps", 1.0), cut]
        A, Bv = ljv("a"), ljv("b")
        if "energy(a,b) == energy(b,a)" in q.name:
            outs = []
            for prof in ("debug", "release"):
                r = native_eval([dict(fn="LJ2::energy", args=[[jf(v) if v is not None else None for v in A], [jf(v) if v is not None else None for v in Bv]]),
                                 dict(fn="LJ2::energy", args=[[jf(v) if v is not None else None for v in Bv], [jf(v) if v is not None else None for v in A]])], prof)
                outs.append((unjf(r[0]), unjf(r[1])))
            if all(abs(x - y) > 1e-9 for x, y in outs):
                like_ = abs(A[2] - Bv[2]) < 1e-12 and abs(A[3] - Bv[3]) < 1e-12 and A[4] == Bv[4]
                return ("violated", "LJ2::energy(a,b)=%.9g but energy(b,a)=%.9g for a=%s b=%s" % (outs[0][0], outs[0][1], A, Bv),
                        dict(kind="eval", fn="LJ2::energy", a=A, b=Bv, energies=outs[0]), dict(clause="particle-symmetry", unlike_particles=not like_))
            return ("spurious", "symmetric natively: %s" % (outs,))
        # formula obligations: compare the real function with the reference in double arithmetic
        r = unjf(native_eval([dict(fn="LJ2::energy", args=[[jf(v) if v is not None else None for v in A], [jf(v) if v is not None else None for v in Bv]])])[0])
        rr2 = (A[0] - Bv[0]) ** 2 + (A[1] - Bv[1]) ** 2
        if rr2 <= 0:
            return ("spurious", "r=0")
        tt = (A[2] ** 2 / rr2) ** 3
        refv = 4 * A[3] * (tt * tt - tt)
        if A[4] is not None:
            if rr2 < A[4] ** 2:
                tc = (A[2] ** 2 / A[4] ** 2) ** 3
                refv -= 4 * A[3] * (tc * tc - tc)
            else:
                refv = 0.0
        if abs(r - refv) > 1e-9 * max(1.0, abs(refv)):
            return ("violated", "LJ2::energy=%.12g, shifted truncated 12-6 law gives %.12g for a=%s b=%s" % (r, refv, A, Bv), dict(kind="eval", fn="LJ2::energy", a=A, b=Bv), dict(clause="formula"))
        return ("spurious", "real function matches the law on the rounded model")

    for q in done:
        record(res, q, replay)
    res.functions = used_fns(ex)
    res.stubs = summaries_used()
    res.extra["encoder_validation"] = val
    res.bounds = ["all reals sigma, eps > 0, r > 0, cutoff > 0 (R-mode); continuity bound on sigma, cut in [1/2,4]; molecules of <= 3 particles",
                  "unlike-particle symmetry probed on sigma in [1/4,4], eps=1, cutoff 3.5 (the trimer's setting)"]
    res.assumptions = ["R-mode (exact reals); powi(n) = repeated multiplication", "from_trimer's sigma = 2 radius and cutoff 3.5 are read from the real constructor's output (native data), not derived symbolically"]
    if not val["ok"]:
        res.notes.append("ENCODER VALIDATION FAILED")
        for o in res.obligations:
            if o["status"] == "discharged":
                o["status"] = "undischarged"


def copy_lj(v, x, y):
    return Agg(v.kind, [S.point(x, y)] + list(v.fields[1:]))


def validate_lj(ex, e_s, a_s, b_s):
    vecs = []
    for r in (0.5, 0.9, 1.0, 1.1224620483093730, 1.5, 2.5, 3.4, 3.5, 3.6, 5.0):
        for (sa, sb, cut) in ((1.0, 1.0, None), (1.0, 1.0, 3.5), (2.0, 1.275112, 3.5), (1.275112, 2.0, 3.5), (0.7, 0.7, 2.0)):
            vecs.append(([0.0, 0.0, sa, 1.0, cut], [r * 0.6, r * 0.8, sb, 1.0, cut]))
    real = native_eval([dict(fn="LJ2::energy", args=[x, y]) for x, y in vecs])
    bad = []
    for (x, y), rv in zip(vecs, real):
        env = dict(ax=x[0], ay=x[1], asigma=x[2], aeps=x[3], acut=x[4] if x[4] is not None else 0.0, ahascut=x[4] is not None,
                   bx=y[0], by=y[1], bsigma=y[2], beps=y[3], bcut=y[4] if y[4] is not None else 0.0, bhascut=y[4] is not None)
        env = {k: (float(v) if not isinstance(v, bool) else v) for k, v in env.items()}
        enc = T.evaluate(e_s, env)
        rv = unjf(rv)
        if not (enc == rv or abs(enc - rv) <= 1e-12 * max(1.0, abs(rv))):
            bad.append((x, y, enc, rv))
    return dict(ok=not bad, vectors=len(vecs), mismatches=bad[:5])


PROPS = {"C12": c12, "C13": c13}



def run(prop, tier, seed, only=None):
    res = Result(prop, tier, seed)
    if prop not in PROPS:
        raise SystemExit("no check for " + prop)
    try:
        PROPS[prop](res, tier, seed)
    except Unsupported as e:
        res.ob("mir-execution", "mirsym", "undischarged", "unsupported MIR construct: %s" % e)
        res.notes.append("the MIR engine met a construct outside its subset; nothing is claimed for the affected obligations")
    return res
