"""Query layer over the MIR engine: build obligations (SMT scripts) from executed MIR terms,
discharge them in parallel with z3 (cvc5 as second opinion where cheap), record results."""
import os, sys, json, time, subprocess, concurrent.futures as cf
sys.path.insert(0, os.path.join(os.path.dirname(os.path.dirname(os.path.abspath(__file__))), "mirsym"))
import terms as T
import engine as E
from mirexec import Agg, Enum, Ref, Unsupported, mk_enum


class _PolyR:
    nonfinite_const = False
    names = {}


class Query:
    def __init__(self, name, asserts, expect="unsat", mode="R", timeout=60, get=None, meta=None, nontrivial=True, witness=None):
        """asserts: list of Bool terms whose conjunction is checked.
        expect 'unsat': the obligation holds iff unsat (a model is a counterexample candidate).
        expect 'sat':   a satisfiability witness (vacuity guard / reachability).
        witness: optional list of Bool terms that must be satisfiable together (hypotheses of the
        obligation) -- checked as a separate quick query so an unsat is not vacuous."""
        self.name, self.asserts, self.expect, self.mode, self.timeout = name, asserts, expect, mode, timeout
        self.get = get or []
        self.meta = meta or {}
        self.nontrivial = nontrivial
        self.witness = witness
        self.get_terms = []
        self.status = None
        self.model = {}
        self.secs = 0.0
        self.solver = "portfolio"
        self.witness_status = None

    def script(self, asserts=None):
        if asserts is None and getattr(self, "poly_text", None) is not None:
            # change-of-variables form (vlib/polyq.py): the script is already text
            self.term_names = dict(getattr(self, "poly_term_names", {}))
            return self.poly_text, _PolyR
        r = T.Render(self.mode)
        if asserts is None:
            ax = T.bits_axioms(self.asserts)
            if ax:
                self.asserts = list(self.asserts) + ax
        vs = T.free_vars([a for a in (asserts or self.asserts) if T.is_t(a)])
        vs = list(vs) + [g for g in getattr(self, "get_terms", []) if T.is_t(g)]
        sc = r.script(asserts or self.asserts, get=vs if vs else None)
        self.term_names = {g.id: r.names.get(g.id) for g in getattr(self, "get_terms", []) if T.is_t(g)}
        return sc, r


def _run(q):
    try:
        sc, r = q.script()
        if r.nonfinite_const and q.mode == "R":
            q.status, q.model, q.secs = "error", {}, 0.0
            q.raw = "non-finite constant in R-mode"
            return q
        st, model, secs, raw = E.solve(sc, q.timeout, q.solver)
        q.status, q.model, q.secs, q.raw = st, model, secs, raw[:2000]
        if getattr(q, "poly_text", None) is not None and q.model and getattr(q, "poly_back", None):
            q.model = q.poly_back(q.model)
        if q.witness is not None and st == "unsat":
            sc2, _ = q.script(q.witness)
            st2, m2, s2, raw2 = E.solve(sc2, min(q.timeout, 30), q.solver)
            q.witness_status = st2
            q.secs += s2
    except Exception as e:  # rendering problems etc.
        q.status, q.model, q.secs, q.raw = "error", {}, 0.0, "%s: %s" % (type(e).__name__, e)
    return q


DEFAULT_WORKERS = int(os.environ.get("VERIF_WORKERS", "14"))


def run_queries(qs, workers=None, deadline=None):
    """deadline: absolute time.time() after which queries that have not started are skipped
    (status 'unknown', raw 'budget exhausted')"""
    def guarded(q):
        if deadline is not None and time.time() > deadline:
            q.status, q.model, q.secs, q.raw = "unknown", {}, 0.0, "time budget of this tier exhausted before the query was started"
            return q
        return _run(q)
    with cf.ThreadPoolExecutor(max_workers=workers or DEFAULT_WORKERS) as ex:
        return list(ex.map(guarded, qs))


def record(res, q, replay=None):
    """Translate a finished query into an obligation of `res` (core.Result).
    replay(q) -> ('violated', what, replay_obj, role) | ('spurious', why) | None  for sat models."""
    sample = dict(obligation=q.name, expect=q.expect, mode=q.mode, status=q.status, secs=round(q.secs, 3), **q.meta)
    eng = "mirsym+z3/" + q.mode
    if q.expect == "sat":
        if q.status == "sat":
            res.ob(q.name, eng, "discharged", "witness found", q.secs, sample, q.nontrivial)
        else:
            res.ob(q.name, eng, "undischarged", "expected satisfiable, got %s" % q.status, q.secs, sample, q.nontrivial)
        return
    if q.status == "unsat":
        if q.witness is not None and q.witness_status != "sat":
            res.ob(q.name, eng, "vacuous", "hypotheses not shown satisfiable (%s)" % q.witness_status, q.secs, sample, q.nontrivial)
        else:
            res.ob(q.name, eng, "discharged", "unsat", q.secs, sample, q.nontrivial)
        return
    if q.status == "sat":
        out = replay(q) if replay else None
        if out is not None and out[0] != "violated" and getattr(q, "robust", None):
            # the solver's first model sits on a boundary where rounding hides the disagreement: ask again for a
            # model in which the disagreement holds with the obligation's own margins, and replay that one
            q2 = Query(q.name + " [robust model]", list(q.asserts) + list(q.robust), expect="unsat", mode=q.mode, timeout=q.timeout, meta=q.meta)
            _run(q2)
            q.secs += q2.secs
            if q2.status == "sat":
                q.model = q2.model
                out2 = replay(q)
                if out2 is not None and out2[0] == "violated":
                    out = out2
        if out is None:
            res.inconclusive.append(dict(obligation=q.name, model={k: v for k, v in list(q.model.items())[:12]}, note="no replay available"))
            res.ob(q.name, eng, "undischarged", "counterexample candidate without native confirmation", q.secs, sample, q.nontrivial)
        elif out[0] == "violated":
            _, what, obj, role = out
            st = res.violation(what, obj, role)
            res.ob(q.name, eng + "+replay", st, what, q.secs, dict(sample, model=obj), q.nontrivial)
        else:
            res.inconclusive.append(dict(obligation=q.name, why=out[1], model={k: v for k, v in list(q.model.items())[:12]}))
            res.ob(q.name, eng, "undischarged", "candidate did not reproduce natively: %s" % out[1], q.secs, sample, q.nontrivial)
        return
    if getattr(q, "alt_search", None) and replay:
        # the solver could not decide the obligation; a simpler query whose models are candidate counterexamples of the
        # same obligation is tried (the native replay decides whether a model really is one)
        q2 = Query(q.name + " [counterexample search]", list(q.alt_search), expect="unsat", mode=q.mode, timeout=q.timeout, meta=q.meta)
        _run(q2)
        q.secs += q2.secs
        if q2.status == "sat":
            q.model = q2.model
            out = replay(q)
            if out is not None and out[0] == "violated":
                _, what, obj, role = out
                st = res.violation(what, obj, role)
                res.ob(q.name, eng + "+replay", st, what, q.secs, dict(sample, model=obj), q.nontrivial)
                return
    res.ob(q.name, eng, "undischarged", "%s %s" % (q.status, getattr(q, "raw", "")[:200].replace("\n", " ")), q.secs, sample, q.nontrivial)


# ------------------------------------------------------------------------------ native evaluation

_proc = None


def native_eval(reqs, profile="debug"):
    """reqs: list of dict(fn=..., args=[...]) -> list of results from the real functions"""
    binp = os.path.join(E.TARGET, "replay", profile, "pv_replay")
    inp = "\n".join(json.dumps(r) for r in reqs) + "\n"
    p = subprocess.run([binp, "eval"], input=inp, stdout=subprocess.PIPE, stderr=subprocess.DEVNULL, text=True)
    out = [json.loads(l) for l in p.stdout.strip().split("\n") if l.strip()]
    return out


def jf(x):
    """float -> json-safe"""
    if isinstance(x, bool):
        return x
    if x != x:
        return "nan"
    if x in (float("inf"), float("-inf")):
        return "inf" if x > 0 else "-inf"
    return x


def unjf(x):
    if isinstance(x, str):
        return float(x)
    return x
