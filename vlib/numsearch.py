"""Auxiliary model finder for queries the SMT solvers leave undecided: maximise the minimum
satisfaction margin of the query's own assertions numerically (differential evolution + polish).
A point it finds is a model of the same SMT formula; it is then treated exactly like a solver
model (native replay decides).  It never contributes to a 'holds' verdict."""
import math, sys, os
sys.path.insert(0, os.path.join(os.path.dirname(os.path.dirname(os.path.abspath(__file__))), "mirsym"))
import terms as T

INF = float("inf")


def make_eval(asserts):
    """-> function(env, funcs) -> min margin over asserts"""
    order = []
    seen = set()

    def visit(t):
        if not T.is_t(t) or t.id in seen:
            return
        for a in t.args:
            visit(a)
        seen.add(t.id)
        order.append(t)
    sys.setrecursionlimit(100000)
    for a in asserts:
        visit(a)

    def run(env, funcs):
        val = {}    # id -> float value or margin (for bools)

        def g(x):
            if T.is_t(x):
                return val[x.id]
            if isinstance(x, bool):
                return 1.0 if x else -1.0
            return float(x)
        for t in order:
            op, a = t.op, t.args
            try:
                if op == "var":
                    v = env[a[0]]
                    if t.sort == "B":
                        v = 1.0 if v else -1.0
                elif op == "fadd":
                    v = g(a[0]) + g(a[1])
                elif op == "fsub":
                    v = g(a[0]) - g(a[1])
                elif op == "fmul":
                    v = g(a[0]) * g(a[1])
                elif op == "fdiv":
                    d = g(a[1])
                    v = g(a[0]) / d if d != 0 else math.copysign(1e300, g(a[0]) or 1.0)
                elif op == "frem":
                    v = math.fmod(g(a[0]), g(a[1]))
                elif op == "fneg":
                    v = -g(a[0])
                elif op == "fabs":
                    v = abs(g(a[0]))
                elif op == "fsqrt":
                    v = math.sqrt(max(g(a[0]), 0.0))
                elif op == "fmin":
                    v = min(g(a[0]), g(a[1]))
                elif op == "fmax":
                    v = max(g(a[0]), g(a[1]))
                elif op == "flt" or op == "fle":
                    v = g(a[1]) - g(a[0])
                    if op == "flt" and v == 0:
                        v = -1e-300
                elif op == "feq":
                    d = abs(g(a[0]) - g(a[1]))
                    v = 1.0 if d <= 1e-9 else -d
                elif op == "and":
                    v = min(g(x) for x in a)
                elif op == "or":
                    v = max(g(x) for x in a)
                elif op == "not":
                    x = a[0]
                    if T.is_t(x) and x.op == "feq":
                        d = abs(g(x.args[0]) - g(x.args[1]))
                        v = d if d > 1e-9 else -1.0
                    else:
                        v = -g(x)
                        if v == 0:
                            v = -1e-300
                elif op == "ite":
                    c = g(a[0])
                    v = g(a[1]) if c > 0 else g(a[2])
                elif op == "uf":
                    v = funcs[a[0]](*[g(x) for x in a[1:]])
                elif op == "i2f":
                    v = float(g(a[0]))
                else:
                    return -INF
            except (OverflowError, ValueError, ZeroDivisionError):
                return -INF
            val[t.id] = v
        out = INF
        for a in asserts:
            m = g(a)
            if m < out:
                out = m
        return out
    return run


def search(asserts, params, funcs, budget_s=60, seed=0, extra_env=None):
    """params: list of (name, lo, hi).  -> env dict or None"""
    import time
    import numpy as np
    from scipy.optimize import differential_evolution, minimize
    ev = make_eval(asserts)
    names = [p[0] for p in params]
    bounds = [(p[1], p[2]) for p in params]
    base = dict(extra_env or {})
    t0 = time.time()
    best = [None, -INF]

    def f(xv):
        env = dict(base)
        for n, v in zip(names, xv):
            env[n] = float(v)
        m = ev(env, funcs)
        if m > best[1]:
            best[0], best[1] = env, m
        if m == -INF:
            return 1e6
        return -m

    class Done(Exception):
        pass

    def cb(xk, convergence=None):
        if best[1] > 0 or time.time() - t0 > budget_s:
            return True
        return False
    rng = np.random.default_rng(seed)
    lo = np.array([b[0] for b in bounds])
    hi = np.array([b[1] for b in bounds])
    rounds = 0
    while best[1] <= 0 and time.time() - t0 < budget_s:
        # random starts (uniform, with a share pushed to the edges of the box: bound-clamped parameters are
        # where the interesting states live), then Nelder-Mead polish of the most promising ones
        n = 1500
        X = lo + (hi - lo) * rng.random((n, len(bounds)))
        edge = rng.random((n, len(bounds))) < 0.25
        side = rng.random((n, len(bounds))) < 0.5
        eps = (hi - lo) * 0.03 * rng.random((n, len(bounds)))
        X = np.where(edge, np.where(side, lo + eps, hi - eps), X)
        vals = np.array([f(xv) for xv in X])
        if best[1] > 0:
            break
        idx = np.argsort(vals)[:25]
        for k in idx:
            if time.time() - t0 > budget_s or best[1] > 0:
                break
            try:
                minimize(lambda z: f(np.clip(z, lo, hi)), X[k], method="Nelder-Mead", options=dict(maxiter=1500, xatol=1e-9, fatol=1e-12))
            except Exception:
                pass
        rounds += 1
    if best[1] > 0:
        return best[0], best[1]
    return None, best[1]
