"""C05 C06 C07 C08(optimiser half) C18 C19 C20: the real optimise_state, decided by
 (1) the MIR engine (mopt.py: symbolic execution of optimise_state's MIR per accept/reject history + z3), and
 (2) Kani/CBMC harnesses over the compiled code (kprops.py), bit-precise, as the second engine.
"""
import os, sys, json, itertools, time
sys.path.insert(0, os.path.join(os.path.dirname(os.path.dirname(os.path.abspath(__file__))), "mirsym"))
import terms as T
import engine as E
import mopt
from mopt import Spec, F
from core import Result
from mq import Query, run_queries, record
import optreplay

MAXC = 60


def scenarios(prop, tier, seed):
    """-> list of dict(name, spec_kwargs, flags, hyps, kind)"""
    s1, s2 = 1 + seed % 1000, 2 + seed % 1000
    out = []
    ms = F("maxstep")
    kt = F("kt0")
    fin = F("fin")
    rat = F("ratio")
    base_h = [T.fcmp("fle", 0.0, ms), T.fcmp("fle", ms, 4.0)]
    kt_pos = [T.fcmp("flt", 0.0, kt), T.fcmp("fle", kt, 100.0)]
    fin_h = [T.fcmp("fle", 0.0, fin), T.fcmp("fle", fin, 100.0)]
    rat_h = [T.fcmp("fle", 0.0, rat), T.fcmp("fle", rat, 1.0)]

    def sc(name, np, steps, inner, seed_, kt_start, kt_finish=None, kt_ratio=None, conv=None, sym_range=False, hyps=(), flags=("bad_held",), tier_="quick", valid=None, score=None):
        out.append(dict(name=name, np=np, steps=steps, inner=inner, seed=seed_, kt_start=kt_start, kt_finish=kt_finish, kt_ratio=kt_ratio,
                        conv=conv, sym_range=sym_range, hyps=base_h + list(hyps), flags=flags, tier=tier_, valid=valid, score=score))
    cv = F("conv")
    cv_h = [T.fcmp("fle", -1.0, cv), T.fcmp("fle", cv, 10.0)]
    REJ = lambda n: [None] + [False] * n          # calls 1..n invalid (forced rejections)
    def ACC(n):                                    # calls 1..n valid with concrete, strictly increasing scores (forced acceptances)
        return [None] + [True] * n, [None] + [float(10 * (k + 1)) for k in range(n)]
    if prop == "C05":
        sc("kt0_finish_s4i2", 2, 4, 2, s1, 0.0, kt_finish=fin, hyps=fin_h)
        sc("kt0_ratio_s4i2", 2, 4, 2, s2, 0.0, kt_ratio=rat, hyps=rat_h)
        sc("kt0_default_s6i2", 2, 6, 2, s1, 0.0)
        sc("kt0_finish_s6i3_np3", 3, 6, 3, s2, 0.0, kt_finish=fin, hyps=fin_h)
        sc("kt0_finish_s8i2", 2, 8, 2, s1, 0.0, kt_finish=fin, hyps=fin_h, tier_="thorough")
        sc("kt0_finish_s6i1", 2, 6, 1, s2, 0.0, kt_finish=fin, hyps=fin_h, tier_="thorough")
        sc("kt0_finish_conv_s4i2", 2, 4, 2, s1, 0.0, kt_finish=fin, conv=cv, hyps=fin_h + cv_h)
    elif prop == "C06":
        sc("kt0_s4i2", 2, 4, 2, s1, 0.0, flags=("bad_held", "multi_param"))
        sc("ktpos_ratio_s4i2", 2, 4, 2, s2, kt, kt_ratio=rat, hyps=kt_pos + rat_h, flags=("bad_held", "multi_param"))
        sc("kt0_s6i3_np3_range", 3, 6, 3, s1, 0.0, sym_range=True, flags=("bad_held", "multi_param"))
        sc("ktpos_s5i5", 2, 5, 5, s1, kt, hyps=kt_pos, flags=("bad_held", "multi_param"))
        sc("kt0_s8i4", 2, 8, 4, s2, 0.0, sym_range=True, flags=("bad_held", "multi_param"), tier_="thorough")
    elif prop == "C07":
        sc("ktpos_s4i4", 2, 4, 4, s1, kt, hyps=kt_pos)
        sc("ktpos_ratio_s4i2", 2, 4, 2, s2, kt, kt_ratio=rat, hyps=kt_pos + rat_h)
        sc("kt0_s4i2", 2, 4, 2, s1, 0.0)
        sc("ktpos_finish_s6i2", 2, 6, 2, s1, kt, kt_finish=fin, hyps=kt_pos + fin_h, tier_="thorough")
    elif prop == "C18":
        sc("ratio_s4i2", 2, 4, 2, s1, kt, kt_ratio=rat, hyps=kt_pos + rat_h)
        sc("finish_s6i2", 2, 6, 2, s2, 1.0, kt_finish=fin, hyps=fin_h)
        sc("finish_s4i2_ktsym", 2, 4, 2, s1, kt, kt_finish=fin, hyps=kt_pos + fin_h)
        sc("default_s3i1", 2, 3, 1, s1, kt, hyps=kt_pos)
        sc("kt0_finish_s4i2", 2, 4, 2, s2, 0.0, kt_finish=fin, hyps=fin_h)
        sc("finish_s6i3", 2, 6, 3, s1, 0.5, kt_finish=fin, hyps=fin_h)
        # steps not a multiple of inner_steps: the schedule is spread over the loops actually run (steps // inner)
        sc("finish_s5i2", 2, 5, 2, s2, 1.0, kt_finish=fin, hyps=fin_h)
        sc("finish_s7i3", 2, 7, 3, s1, 0.5, kt_finish=fin, hyps=fin_h)
        sc("finish_s8i2", 2, 8, 2, s2, kt, kt_finish=fin, hyps=kt_pos + fin_h, tier_="thorough")
        # long histories with few forks: n forced rejections (the step size collapses), then free steps
        sc("ratio_rej16_s18i1", 2, 18, 1, s1, 1.0, kt_ratio=0.5, valid=REJ(16))
        sc("ratio_rej24_s26i2", 2, 26, 2, s2, 1.0, kt_ratio=0.25, valid=REJ(24), tier_="thorough")
        av, asc = ACC(8)
        sc("finish_acc8_s10i2", 2, 10, 2, s1, 1.0, kt_finish=fin, hyps=fin_h, valid=av, score=asc)
    elif prop == "C19":
        sc("kt0_s4i2", 2, 4, 2, s1, 0.0, flags=("big_move", "multi_param"))
        sc("kt0_s6i2", 2, 6, 2, s2, 0.0, flags=("big_move", "multi_param"))
        sc("kt0_s4i2_range", 2, 4, 2, s2, 0.0, sym_range=True, flags=("big_move", "multi_param"))
        sc("kt0_s6i2_range", 2, 6, 2, s2, 0.0, sym_range=True, flags=("big_move", "multi_param"), tier_="thorough")
        sc("ktpos_s3i1_np3", 3, 3, 1, s1, kt, kt_ratio=rat, hyps=kt_pos + rat_h, flags=("big_move", "multi_param"))
        sc("kt0_s6i3", 2, 6, 3, s1, 0.0, flags=("big_move", "multi_param"))
        sc("kt0_s8i2", 2, 8, 2, s2, 0.0, flags=("big_move", "multi_param"), tier_="thorough")
        av, asc = ACC(6)
        sc("kt0_acc6_s8i2", 2, 8, 2, s1, 0.0, flags=("big_move", "multi_param"), valid=av, score=asc)
        sc("kt0_rej6_acc_s10i2", 2, 10, 2, s2, 0.0, flags=("big_move", "multi_param"), valid=REJ(6) + [True] * 2, score=[None] * 7 + [50.0, 60.0])
        sc("kt0_s9i3", 2, 9, 3, s1, 0.0, sym_range=True, flags=("big_move", "multi_param"), tier_="thorough")
    elif prop == "C08":
        sc("kt0_s4i2_range", 3, 4, 2, s1, 0.0, sym_range=True, flags=("out_of_range",))
        sc("ktpos_s4i2_range", 2, 4, 2, s2, kt, kt_ratio=rat, hyps=kt_pos + rat_h, sym_range=True, flags=("out_of_range",))
        sc("kt0_s6i3_range", 2, 6, 3, s2, 0.0, sym_range=True, flags=("out_of_range",), tier_="thorough")
    elif prop == "C20":
        for (stp, inn) in [(0, 1), (1, 0), (0, 0), (3, 2), (2, 5), (5, 2), (1, 1), (4, 3)]:
            sc("count_s%di%d" % (stp, inn), 2, stp, inn, s1, 0.0, kt_finish=fin, hyps=fin_h, flags=("count",))
        sc("count_ktpos_s3i2", 2, 3, 2, s2, kt, kt_ratio=rat, hyps=kt_pos + rat_h, flags=("count",))
        sc("count_s7i2", 2, 7, 2, s2, 0.0, flags=("count",), tier_="thorough")
        # convergence: threshold symbolic; frozen histories (forced rejections) and free ones
        sc("conv_rej_s8i1", 2, 8, 1, s1, 0.0, conv=cv, hyps=cv_h, flags=("count",), valid=REJ(8))
        sc("conv_rej_s14i2", 2, 14, 2, s2, 0.0, conv=cv, hyps=cv_h, flags=("count",), valid=REJ(14))
        av, asc = ACC(7)
        sc("conv_acc_s7i1", 2, 7, 1, s1, 0.0, conv=cv, hyps=cv_h, flags=("count",), valid=av, score=asc)
        sc("conv_free_s7i1", 2, 7, 1, s2, 0.0, conv=cv, hyps=cv_h, flags=("count",), tier_="thorough")
        # a fully rejected loop, a fully accepted one, then free steps (the step-size adaptation has something to do)
        sc("conv_rej2_acc2_s6i2", 2, 6, 2, s1, 0.0, conv=cv, hyps=cv_h + [T.fcmp("fle", F("s0"), 1.0)], flags=("count",), valid=REJ(2) + [True, True], score=[None] * 3 + [50.0, 60.0])
    return [s for s in out if tier == "thorough" or s["tier"] == "quick"]


def build_spec(scn, symbolic_draws=False):
    np_, steps = scn["np"], scn["steps"]
    if scn["sym_range"]:
        lo = [F("lo%d" % i) for i in range(np_)]
        hi = [F("hi%d" % i) for i in range(np_)]
    else:
        lo = [0.0] * np_
        hi = [1.0] * np_
    init = [F("p%d" % i) for i in range(np_)]
    hyps = []
    for i in range(np_):
        hyps += [T.fcmp("fle", lo[i], init[i]), T.fcmp("fle", init[i], hi[i])]
        if scn["sym_range"]:
            hyps += [T.fcmp("fle", -8.0, lo[i]), T.fcmp("fle", hi[i], 8.0), T.fcmp("fle", lo[i], hi[i])]
    nsteps = max(steps, 1) + 2
    stream = mopt.native_stream(scn["seed"], np_, nsteps)
    spec = Spec(np_, steps, scn["inner"], scn["kt_start"], scn["kt_finish"], scn["kt_ratio"], F("maxstep"), scn["conv"], lo, hi, init,
                stream["index"], None if symbolic_draws else stream["move"], None if symbolic_draws else stream["accept"],
                script_valid=scn.get("valid"), script_score=scn.get("score"))
    return spec, hyps


def model_to_replay(scn, spec, arm, model):
    """concrete replay file (same format as the Kani counterexamples)"""
    g = lambda name, d=0.0: (model.get(name) if model.get(name) is not None else d)
    tv = lambda t, d=0.0: (float(t) if not T.is_t(t) else T.evaluate(t, _Env(model, d)))
    np_ = spec.np
    lo = [tv(x) for x in spec.lo] + [0.0] * (3 - np_)
    hi = [tv(x) for x in spec.hi] + [1.0] * (3 - np_)
    init = [g("p%d" % i, 0.5) for i in range(np_)] + [0.0] * (3 - np_)
    valid = 0
    score = [0.0] * MAXC
    for t in range(1, MAXC):
        sv = spec.script_valid[t] if (spec.script_valid is not None and t < len(spec.script_valid)) else None
        ss = spec.script_score[t] if (spec.script_score is not None and t < len(spec.script_score)) else None
        if (model.get("valid%d" % t, False) if sv is None else sv):
            valid |= (1 << t)
        score[t] = g("s%d" % t, 0.0) if ss is None else float(ss)
    cfg = dict(steps=spec.steps, inner=spec.inner, kt_start=tv(spec.kt_start), kt_finish=None if spec.kt_finish is None else tv(spec.kt_finish),
               kt_ratio=None if spec.kt_ratio is None else tv(spec.kt_ratio), max_step=tv(spec.max_step), conv=None if spec.conv is None else tv(spec.conv),
               seed=scn["seed"], np=np_, lo=lo, hi=hi)
    return dict(cfg=cfg, script=dict(valid=valid, score=score, init_score=g("s0", 0.0)), init=init)


class _Env(dict):
    def __init__(self, model, default):
        super().__init__(model)
        self.d = default

    def __getitem__(self, k):
        v = self.get(k)
        return self.d if v is None else v


NATIVE_FLAG = {"bad_held": "bad_held", "multi_param": "multi_param", "big_move": "big_move", "out_of_range": "out_of_range", "count": "bad_count"}


def arm_queries(scn, spec, hyps, arms, panics, flag, tier, robust=False):
    """per-arm queries for one clause; -> list of (Query, arm)"""
    allh = scn["hyps"] + hyps
    out = []
    to = 30 if tier == "quick" else 180
    if flag == "panic":
        for k, (pc, msg, fn, blk) in enumerate(panics):
            if msg == "unreachable":
                continue  # match arms the compiler marks unreachable; infeasible by construction of the discriminant
            out.append((Query("panic%d" % k, allh + list(pc), timeout=to, meta=dict(msg=msg[:80], fn=fn[-40:])), None))
        return out
    for k, a in enumerate(arms):
        v = T.bor(*a["viol"][flag])
        if v is False:
            continue
        body = allh + a["pc"] + [v] + (a["robust"] if robust else [])
        ax = mopt.exp_axioms(body)
        out.append((Query("%s%d" % (flag, k), body + ax, timeout=to, meta=dict(arm=k)), a))
    return out


def run_mir(res, prop, tier, seed):
    ex = E.load()
    t0 = time.time()
    runs = []
    allq = []
    for scn in scenarios(prop, tier, seed):
        for mode in ("A", "B"):
            if mode == "B" and (scn["sym_range"] or "count" in scn["flags"]):
                continue
            scn2 = dict(scn, mode=mode)
            spec, hyps = build_spec(scn2, symbolic_draws=(mode == "B"))
            if mode == "B":
                spec.max_step = 0.25
            try:
                arms, panics = mopt.run_spec(ex, spec)
            except Exception as e:
                res.ob("mir:%s/%s" % (scn["name"], mode), "mirsym", "undischarged", "MIR execution failed: %s: %s" % (type(e).__name__, str(e)[:300]))
                continue
            for flag in tuple(scn["flags"]) + ("panic",):
                qa = arm_queries(scn2, spec, hyps, arms, panics, flag, tier)
                runs.append(dict(scn=scn2, spec=spec, hyps=hyps, arms=arms, panics=panics, flag=flag, qa=qa))
                allq += [q for q, _ in qa]
    # C20, "with a convergence threshold the run is an exact prefix of the run without it": the same scenario is
    # executed a second time with the threshold removed (same symbolic inputs, same script); for every pair of
    # histories the query asks for a call index at which the two runs propose different parameter vectors
    prefix_runs = []
    if prop == "C20":
        for scn in scenarios(prop, tier, seed):
            if scn["conv"] is None:
                continue
            try:
                scnA = dict(scn, mode="A")
                specA, hypsA = build_spec(scnA)
                armsA, _ = mopt.run_spec(ex, specA)
                scnN = dict(scn, conv=None, mode="A")
                specN, hypsN = build_spec(scnN)
                armsN, _ = mopt.run_spec(ex, specN)
            except Exception as e:
                res.ob("mir:%s/prefix" % scn["name"], "mirsym", "undischarged", "MIR execution failed: %s: %s" % (type(e).__name__, str(e)[:300]))
                continue
            qa = []
            for ia, a_ in enumerate(armsA):
                for ib, b_ in enumerate(armsN):
                    va, vb = a_["mon"]["vecs"], b_["mon"]["vecs"]
                    nmin = min(len(va), len(vb))
                    diff = T.bor(*[mopt.fne(x_, y_) for t_ in range(nmin) for x_, y_ in zip(va[t_], vb[t_])]) if nmin else False
                    if diff is False:
                        continue
                    body = scn["hyps"] + hypsA + a_["pc"] + b_["pc"] + [diff]
                    qa.append((Query("prefix%d_%d" % (ia, ib), body + mopt.exp_axioms(body), timeout=30 if tier == "quick" else 180, meta=dict(arm=(ia, ib))), (a_, b_)))
            prefix_runs.append(dict(scn=scnA, scnN=scnN, spec=specA, specN=specN, qa=qa, pairs=len(armsA) * len(armsN)))
            allq += [q for q, _ in qa]
    res.extra["mir_exec_s"] = round(time.time() - t0, 2)
    # interleave the scenarios so that a time budget touches all of them; on a tree that breaks the property most
    # undecided queries run into their cap, and the quick tier must still end
    order_ = list(allq)
    __import__("random").Random(seed).shuffle(order_)
    run_queries(order_, deadline=time.time() + (420 if tier == "quick" else 5400))
    res.extra["mir_queries"] = len(allq)
    res.extra["mir_queries_not_started"] = sum(1 for q_ in allq if "budget" in str(getattr(q_, "raw", "")))
    for r in runs:
        scn, spec, flag, qa = r["scn"], r["spec"], r["flag"], r["qa"]
        desc = {"A": "draws = the real generator's stream for seed %d; step size, temperatures%s symbolic" % (scn["seed"], ", ranges" if scn["sym_range"] else ""),
                "B": "draws symbolic (every seed); step size 0.25, ranges [0,1]; temperatures symbolic"}[scn["mode"]]
        name = "mir:%s/%s[steps=%d,inner=%d,np=%d]: no %s over %d histories (%s)" % (scn["name"], scn["mode"], scn["steps"], scn["inner"], scn["np"],
                                                                                   {"panic": "panic", "count": "wrong amount of work"}.get(flag, flag), len(r["arms"]), desc)
        secs = sum(q.secs for q, _ in qa)
        sample = dict(obligation=name, queries=len(qa), histories=len(r["arms"]), solver_s=round(secs, 2))
        sats = [(q, a) for q, a in qa if q.status == "sat"]
        bad = [(q, a) for q, a in qa if q.status not in ("sat", "unsat")]
        if not sats and not bad:
            res.ob(name, "mirsym+z3/R", "discharged", "%d queries unsat" % len(qa), secs, sample)
            continue
        if not sats:
            res.ob(name, "mirsym+z3/R", "undischarged", "%d of %d queries %s" % (len(bad), len(qa), bad[0][0].status), secs, sample)
            continue
        out = confirm(ex, res, prop, r, sats, tier)
        if out is None:
            res.inconclusive.append(dict(obligation=name, note="solver counterexample(s) for %d histories, none reproduced natively" % len(sats),
                                         model={k: v for k, v in list(sats[0][0].model.items())[:14]}))
            res.ob(name, "mirsym+z3/R", "undischarged", "counterexample candidates did not reproduce natively", secs, sample)
        else:
            what, obj, role = out
            st = res.violation(what, obj, role)
            res.ob(name, "mirsym+z3/R+replay", st, what, secs, dict(sample, counterexample=obj.get("rep", {}).get("cfg")))
    for r in prefix_runs:
        scn, qa = r["scn"], r["qa"]
        name = "mir:%s/A[steps=%d,inner=%d]: with the convergence threshold the proposals are a prefix of the run without it (%d pairs of histories, %d with a comparable call)" % (
            scn["name"], scn["steps"], scn["inner"], r["pairs"], len(qa))
        secs = sum(q.secs for q, _ in qa)
        sats = [(q, ab) for q, ab in qa if q.status == "sat"]
        bad = [(q, ab) for q, ab in qa if q.status not in ("sat", "unsat")]
        if not sats and not bad:
            res.ob(name, "mirsym+z3/R", "discharged", "%d queries unsat" % len(qa), secs, dict(obligation=name, queries=len(qa)))
            continue
        done_ = False
        for q, ab in sats[:8]:
            repA = model_to_replay(r["scn"], r["spec"], None, q.model)
            repN = model_to_replay(r["scnN"], r["specN"], None, q.model)
            outs = {}
            for prof in ("debug", "release"):
                oa, _ = optreplay.run_native(repA, prof)
                on, _ = optreplay.run_native(repN, prof)
                outs[prof] = (oa, on)
            def first_diff(oa, on):
                if oa is None or on is None or oa.get("panicked") or on.get("panicked"):
                    return None
                for t_, (x_, y_) in enumerate(zip(oa["vecs"], on["vecs"])):
                    if x_ != y_:
                        return t_
                return None
            fd = [first_diff(*outs[prof]) for prof in ("debug", "release")]
            if all(f_ is not None for f_ in fd):
                oa, on = outs["debug"]
                what = "with convergence=%s the run proposes %s at call %d, the run without a threshold proposes %s (cfg=%s, scenario %s)" % (
                    repA["cfg"]["conv"], oa["vecs"][fd[0]], fd[0], on["vecs"][fd[0]], json.dumps(repA["cfg"]), scn["name"])
                st = res.violation(what, dict(kind="opt-prefix", rep=repA, rep_without=repN, native=dict(first_difference=fd[0])), dict(flag="prefix", clause="prefix-of-unthresholded-run"))
                res.ob(name, "mirsym+z3/R+replay", st, what, secs, dict(obligation=name, counterexample=repA["cfg"]))
                done_ = True
                break
        if not done_:
            if sats:
                res.inconclusive.append(dict(obligation=name, note="solver counterexample(s) for %d history pairs, none reproduced natively" % len(sats)))
            res.ob(name, "mirsym+z3/R", "undischarged", "%d sat candidates not reproduced, %d undecided of %d" % (len(sats), len(bad), len(qa)), secs, dict(obligation=name))
    import mprops
    res.functions += mprops.used_fns(ex)
    res.stubs += mprops.summaries_used()
    res.bounds += ["MIR engine: optimiser runs of the listed (steps, inner_steps), one query per accept/reject history (2^steps) and clause, 2-3 parameters. "
                   "Mode A: the parameter-index, move and acceptance draws are the real generator's stream for the seed; parameter values, ranges (where marked), step size, temperatures, finishing temperature / ratio and the script are symbolic reals. "
                   "Mode B: the move and acceptance draws are symbolic (any seed; the parameter-index stream is the seed's), step size 0.25 and ranges [0,1] concrete"]
    res.assumptions += ["MIR engine: exact-real arithmetic (R-mode) with IEEE special values (x/0, exp(+-inf), min(NaN,.)) propagated concretely; exp/powf uninterpreted with instance axioms (positivity, exp(0)=1, monotonicity)",
                        "scripted State: proposals are answered by call index (validity bit, score); calls after the configured number of proposals see the held score if they see the held vector"]


def native_check(prop, flag, rep):
    outs = {}
    for prof in ("debug", "release"):
        o, err = optreplay.run_native(rep, prof)
        outs[prof] = o
    if flag == "panic":
        ok = all(o is not None and o["panicked"] for o in outs.values())
    else:
        nf = NATIVE_FLAG[flag]
        ok = all(o is not None and (o["flags"].get(nf) or (flag == "bad_held" and o["panicked"])) for o in outs.values())
    return ok, outs


def confirm(ex, res, prop, r, sats, tier):
    """turn solver counterexamples into a natively reproduced violation, or None"""
    import kprops
    scn, spec, flag = r["scn"], r["spec"], r["flag"]
    tried = 0

    def attempt(scn_, spec_, model):
        rep = model_to_replay(scn_, spec_, None, model)
        ok, outs = native_check(prop, flag, rep)
        if ok:
            role = kprops.structural_role(prop, NATIVE_FLAG.get(flag, flag), rep, "panic" if flag == "panic" else None)
            what = "%s natively (debug+release) for cfg=%s, scenario %s" % ("panic" if flag == "panic" else "monitor flag " + NATIVE_FLAG[flag], json.dumps(rep["cfg"]), scn_["name"])
            return (what, dict(kind="opt", rep=rep, native=outs["debug"]), role)
        return None
    if scn["mode"] == "A":
        # 1. the models as they are; 2. robust witnesses (decisions independent of the uninterpreted exp)
        for q, a in sats[:6]:
            out = attempt(scn, spec, q.model)
            if out:
                return out
        if flag not in ("panic", "count"):
            qa = arm_queries(scn, spec, r["hyps"], [a for _, a in sats[:12]], [], flag, tier, robust=True)
            run_queries([q for q, _ in qa])
            for q, a in qa:
                if q.status == "sat":
                    out = attempt(scn, spec, q.model)
                    if out:
                        return out
        return None
    # mode B: look for a seed whose real stream realises the violation (same concrete step size)
    for sd in range(1, 41):
        scn_s = dict(scn, seed=sd, mode="A")
        spec_s, hyps_s = build_spec(scn_s, symbolic_draws=False)
        spec_s.max_step = spec.max_step
        try:
            arms_s, panics_s = mopt.run_spec(ex, spec_s)
        except Exception:
            continue
        for robust in ((True, False) if flag not in ("panic", "count") else (False,)):
            qa = arm_queries(scn_s, spec_s, hyps_s, arms_s, panics_s, flag, tier, robust=robust)
            run_queries([q for q, _ in qa])
            for q, a in qa:
                if q.status == "sat":
                    out = attempt(scn_s, spec_s, q.model)
                    if out:
                        return out
    return None


def run(prop, tier, seed, only=None):
    res = Result(prop, tier, seed)
    engines = os.environ.get("VERIF_ENGINES", "mir,kani").split(",")
    if "mir" in engines:
        try:
            run_mir(res, prop, tier, seed)
        except E.Unsupported as e:
            res.ob("mir-execution", "mirsym", "undischarged", "unsupported MIR construct: %s" % e)
    if "kani" in engines and prop != "C08":
        import kprops
        r2 = kprops.run(prop, tier, seed, only)
        res.obligations += r2.obligations
        res.violations += r2.violations
        res.known += r2.known
        res.inconclusive += r2.inconclusive
        res.samples += r2.samples[:6]
        res.functions += r2.functions
        res.bounds += r2.bounds
        res.stubs += r2.stubs
        res.assumptions += r2.assumptions
        for k, v in r2.solver_s.items():
            res.solver_s[k] = res.solver_s.get(k, 0) + v
    return res
