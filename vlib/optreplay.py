"""Decode a Kani counterexample of the optimiser harnesses into a replay file and run it natively."""
import os, re, json, struct, subprocess, hashlib

VERIF = os.path.dirname(os.path.dirname(os.path.abspath(__file__)))
NP, MAXC = 3, 16


def tables():
    src = open(os.path.join(VERIF, "kani", "src", "h_opt.rs")).read()
    t = {}
    for m in re.finditer(r"pub const (\w+): \[f64; \d+\] = \[(.*?)\];", src, re.S):
        t[m.group(1)] = [float(x.strip().rstrip(".") if x.strip().endswith(".") else x.strip()) for x in m.group(2).split(",") if x.strip()]
    return t


def decode(bs, shape):
    """bs: flat byte list in draw() order; shape: dict(np, seed, steps, inner, sym_range, kt_start, sym_conv, sym_finish, sym_ratio)"""
    T = tables()
    it = iter(bs)

    def u8():
        return next(it)

    def u32():
        return struct.unpack("<I", bytes(next(it) for _ in range(4)))[0]
    k_kt, has_fin, k_fin, has_ratio, k_ratio, k_step, has_conv, k_conv = [u8() for _ in range(8)]
    k_lo = [u8() for _ in range(NP)]
    k_w = [u8() for _ in range(NP)]
    k_init = [u8() for _ in range(NP)]
    k_init_score = u8()
    valid = u32()
    k_score = [u8() for _ in range(MAXC)]
    exp_choice = u32()
    k_powf = u8()

    def pick(name, k):
        tb = T[name]
        return tb[k] if k < len(tb) else tb[0]
    np_ = shape["np"]
    lo, hi, init = [0.0] * NP, [1.0] * NP, [0.0] * NP
    for i in range(np_):
        if shape.get("sym_range"):
            lo[i] = pick("LOS", k_lo[i])
            hi[i] = lo[i] + pick("WIDTHS", k_w[i])
        init[i] = lo[i] + (hi[i] - lo[i]) * pick("FRACS", k_init[i])
    cfg = dict(steps=shape["steps"], inner=shape["inner"],
               kt_start=shape["kt_start"] if shape.get("kt_start") is not None else pick("KTS", k_kt),
               kt_finish=opt(shape.get("finish"), has_fin, pick("FINS", k_fin)),
               kt_ratio=opt(shape.get("ratio"), has_ratio, pick("RATIOS", k_ratio)),
               max_step=pick("STEPS", k_step),
               conv=opt(shape.get("conv"), has_conv, pick("CONVS", k_conv)),
               seed=shape["seed"], np=np_, lo=lo, hi=hi)
    script = dict(valid=valid, score=[pick("SCORES", k) for k in k_score], init_score=pick("SCORES", k_init_score))
    return dict(cfg=cfg, script=script, init=init, exp_choice=exp_choice, powf_choice=pick("POWFS", k_powf))


def opt(mode, has, v):
    if mode is None:
        return None
    if mode == "sym":
        return v if has else None
    return float(mode)


def replay_bin(profile="debug"):
    return os.path.join(VERIF, "target", "replay", profile, "pv_replay")


def run_native(rep, profile="debug"):
    path = os.path.join(VERIF, "target", "tmp_replay_%d.json" % os.getpid())
    json.dump(rep, open(path, "w"))
    p = subprocess.run([replay_bin(profile), "opt", path], stdout=subprocess.PIPE, stderr=subprocess.PIPE, text=True)
    os.unlink(path)
    last = p.stdout.strip().split("\n")[-1] if p.stdout.strip() else ""
    try:
        return json.loads(last), p.stderr
    except Exception:
        return None, p.stderr
