"""Polynomial normal form and a solver-checked change of variables for the C01 geometry queries.

The terms the MIR executor produces for cell/site geometry are polynomials in
    a (cell length), q (ratio b/a), c = cos(angle), s = sin(angle), the relative fractional offset
    (deltax, deltay) of two copies, the shape orientation (cth, sth)
of total degree up to 8, which z3's nlsat does not decide.  The same atoms are polynomials of degree 2 in
    A = a,  Bx = a q c,  By = a q s      (the Cartesian lattice vectors (A,0), (Bx,By))
    u = deltax A + deltay Bx,  v = deltay By      (the Cartesian offset)
This module expands every atom exactly (rational arithmetic on the doubles' exact values), rewrites the
monomials (a definitional substitution: nothing is approximated), clears the positive denominators A, By
and prints SMT-LIB.  Atoms that are not polynomials in the right shape (the cell-domain bounds and the
shell-count guards, which speak about q, 1/q, c, s alone) are translated by the rules in `special_atom`;
every rule instance used is itself discharged by the solver as an equivalence lemma over the old
variables (see `lemma_queries`).  The map (a,q,c,s,deltax,deltay) -> (A,Bx,By,u,v) is a bijection
between the two domains (a, q > 0, s > 0), so sat/unsat carry over in both directions; models are
mapped back before they are replayed."""
import math
from fractions import Fraction
import terms as T


class NotPoly(Exception):
    pass


# ------------------------------------------------------------------ polynomials: {mono: Fraction}, mono = tuple of (name, exp)

def pconst(c):
    c = Fraction(c)
    return {(): c} if c != 0 else {}


def pvar(n):
    return {((n, 1),): Fraction(1)}


def padd(p, q_, sign=1):
    r = dict(p)
    for m, c in q_.items():
        v = r.get(m, 0) + sign * c
        if v == 0:
            r.pop(m, None)
        else:
            r[m] = v
    return r


def mmul(m1, m2):
    d = dict(m1)
    for n, e in m2:
        d[n] = d.get(n, 0) + e
    return tuple(sorted(d.items()))


def pmul(p, q_):
    r = {}
    for m1, c1 in p.items():
        for m2, c2 in q_.items():
            m = mmul(m1, m2)
            v = r.get(m, 0) + c1 * c2
            if v == 0:
                r.pop(m, None)
            else:
                r[m] = v
    return r


def ppow(p, n):
    r = pconst(1)
    for _ in range(n):
        r = pmul(r, p)
    return r


def pscale(p, c):
    return {m: v * c for m, v in p.items()} if c != 0 else {}


def to_poly(t, names, memo):
    """T term (sort F) -> polynomial; names: term id -> symbol for the uninterpreted applications"""
    if not T.is_t(t):
        if isinstance(t, bool):
            raise NotPoly("bool")
        x = float(t)
        if x != x or x in (float("inf"), float("-inf")):
            raise NotPoly("non-finite")
        return pconst(Fraction(x))
    if t.id in memo:
        return memo[t.id]
    op, a = t.op, t.args
    if t.id in names:
        r = pvar(names[t.id])
    elif op == "var":
        r = pvar(a[0])
    elif op == "const":
        r = pconst(Fraction(float(a[0])))
    elif op == "fadd":
        r = padd(to_poly(a[0], names, memo), to_poly(a[1], names, memo))
    elif op == "fsub":
        r = padd(to_poly(a[0], names, memo), to_poly(a[1], names, memo), -1)
    elif op == "fmul":
        r = pmul(to_poly(a[0], names, memo), to_poly(a[1], names, memo))
    elif op == "fneg":
        r = pscale(to_poly(a[0], names, memo), -1)
    elif op == "fdiv":
        d = to_poly(a[1], names, memo)
        if list(d.keys()) != [()]:
            raise NotPoly("division by a non-constant")
        r = pscale(to_poly(a[0], names, memo), 1 / d[()])
    else:
        raise NotPoly(op)
    memo[t.id] = r
    return r


ONE = {(): Fraction(1)}


def positive_monomial(p, positive):
    if len(p) != 1:
        return False
    (m, c), = p.items()
    return c > 0 and all(n in positive for n, e in m)


def to_ratio(t, names, memo, rmemo, positive):
    """T term -> (N, D): value N/D with D a monomial with a positive coefficient in variables that are positive
    on the domain (so an atom can be cross-multiplied without changing its sense)"""
    if not T.is_t(t):
        return to_poly(t, names, memo), ONE
    if t.id in rmemo:
        return rmemo[t.id]
    op, a = t.op, t.args
    if op in ("fadd", "fsub"):
        (n1, d1), (n2, d2) = to_ratio(a[0], names, memo, rmemo, positive), to_ratio(a[1], names, memo, rmemo, positive)
        sg = 1 if op == "fadd" else -1
        r = (padd(n1, n2, sg), d1) if d1 == d2 else (padd(pmul(n1, d2), pmul(n2, d1), sg), pmul(d1, d2))
    elif op == "fmul":
        (n1, d1), (n2, d2) = to_ratio(a[0], names, memo, rmemo, positive), to_ratio(a[1], names, memo, rmemo, positive)
        r = (pmul(n1, n2), pmul(d1, d2))
    elif op == "fneg":
        n1, d1 = to_ratio(a[0], names, memo, rmemo, positive)
        r = (pscale(n1, -1), d1)
    elif op == "fdiv":
        (n1, d1), (n2, d2) = to_ratio(a[0], names, memo, rmemo, positive), to_ratio(a[1], names, memo, rmemo, positive)
        if list(n2.keys()) == [()] and d2 == ONE:
            r = (pscale(n1, 1 / n2[()]), d1)
        elif not positive_monomial(n2, positive):
            raise NotPoly("division by something not known to be positive")
        else:
            r = (pmul(n1, d2), pmul(d1, n2))
    else:
        r = (to_poly(t, names, memo), ONE)
    rmemo[t.id] = r
    return r


# ------------------------------------------------------------------ change of variables

def stage1(p, old=("a", "q", "c", "s"), new=("A", "Bx", "By")):
    """a^i q^j c^k s^l = A^(i-j) Bx^k By^l L^(j-k-l)  with L = |B| = a q.  When every monomial has j == k+l and
    i >= j (all the geometry atoms) L does not occur; otherwise the atom is multiplied by the positive monomial
    that clears negative powers of A and L, and L is kept as a variable (the converter then adds L > 0,
    L^2 = Bx^2 + By^2)."""
    exps = []
    for m, coef in p.items():
        d = dict(m)
        i, j, k, l = (d.pop(n, 0) for n in old)
        exps.append((d, coef, i - j, k, l, j - k - l))
    minA = min([e[2] for e in exps] + [0])
    minL = min([e[5] for e in exps] + [0])
    r = {}
    for d, coef, eA, k, l, eL in exps:
        d = dict(d)
        for n, e in zip(new + ("L",), (eA - minA, k, l, eL - minL)):
            if e:
                d[n] = d.get(n, 0) + e
        mm = tuple(sorted(d.items()))
        v = r.get(mm, 0) + coef
        if v == 0:
            r.pop(mm, None)
        else:
            r[mm] = v
    return r


def stage2(p, dx, dy):
    """deltax = (u By - v Bx)/(A By), deltay = v/By; returns the numerator after clearing the positive
    denominator A^i By^j (sign preserving for <, <=, =)"""
    if dx is None and dy is None:
        return p
    mx = max([dict(m).get(dx, 0) for m in p] + [0])
    mxy = max([dict(m).get(dx, 0) + dict(m).get(dy, 0) for m in p] + [0])
    if mxy == 0:
        return p
    num_x = padd(pmul(pvar("u"), pvar("By")), pmul(pvar("v"), pvar("Bx")), -1)
    r = {}
    powx = {0: pconst(1)}
    for m, coef in p.items():
        d = dict(m)
        ex, ey = d.pop(dx, 0), d.pop(dy, 0)
        if ex not in powx:
            powx[ex] = ppow(num_x, ex)
        rest = {tuple(sorted(d.items())): coef}
        term = pmul(rest, powx[ex])
        extra = {}
        if ey:
            extra["v"] = ey
        if mx - ex:
            extra["A"] = mx - ex
        if mxy - ex - ey:
            extra["By"] = mxy - ex - ey
        term = pmul(term, {tuple(sorted(extra.items())): Fraction(1)})
        r = padd(r, term)
    # cancel common positive monomial factors
    for n in ("A", "By"):
        if r:
            k = min(dict(m).get(n, 0) for m in r)
            if k:
                r2 = {}
                for m, coef in r.items():
                    d = dict(m)
                    d[n] -= k
                    if d[n] == 0:
                        del d[n]
                    r2[tuple(sorted(d.items()))] = coef
                r = r2
    return r


# ------------------------------------------------------------------ special atoms (domain bounds and guards)

B2 = padd(pmul(pvar("Bx"), pvar("Bx")), pmul(pvar("By"), pvar("By")))
A2 = pmul(pvar("A"), pvar("A"))


def special_atom(t, ids):
    """t: comparison T term about one of q, 1/q, c, s against a constant.  ids: dict(q=id, c=id, s=id).
    -> (skeleton in the new variables, key) or None"""
    if not T.is_t(t) or t.op not in ("flt", "fle", "feq"):
        return None
    L, R = t.args

    def kind(z):
        if not T.is_t(z):
            return None
        if z.id == ids["q"]:
            return "q"
        if z.id == ids["c"]:
            return "c"
        if z.id == ids["s"]:
            return "s"
        if z.op == "fdiv" and not T.is_t(z.args[0]) and float(z.args[0]) == 1.0 and T.is_t(z.args[1]) and z.args[1].id == ids["q"]:
            return "invq"
        return None
    if kind(L) and not T.is_t(R):
        X, K, side = kind(L), Fraction(float(R)), "XK"
    elif kind(R) and not T.is_t(L):
        X, K, side = kind(R), Fraction(float(L)), "KX"
    else:
        return None
    return special_rule(X, t.op, side, K), (X, t.op, side, K)


def special_rule(X, op, side, K):
    """X - K (side XK) or K - X (side KX)  'op'  0, with X >= 0 on the domain, in the new variables"""
    if K < 0:
        # X - K > 0 always
        val = False if side == "XK" else (op != "feq")
        return ("const", val)
    if X in ("c", "s") and K == 0:
        p = pvar("Bx" if X == "c" else "By")
    else:
        K2 = K * K
        if X == "q":        # |B| - K A
            p = padd(B2, pscale(A2, K2), -1)
        elif X == "invq":   # A - K |B|
            p = padd(A2, pscale(B2, K2), -1)
        elif X == "c":      # Bx - K |B|
            p = padd(pmul(pvar("Bx"), pvar("Bx")), pscale(B2, K2), -1)
        else:
            p = padd(pmul(pvar("By"), pvar("By")), pscale(B2, K2), -1)
    if side == "KX":
        p = pscale(p, -1)
    return ("atom", op, p)


def lemma_text(X, op, side, K):
    """SMT-LIB script: on the old domain, the old atom and its translation differ (must be unsat)"""
    new = skel_txt(special_rule(X, op, side, K))
    xs = {"q": "q", "invq": "(/ 1.0 q)", "c": "c", "s": "s"}[X]
    o = {"flt": "<", "fle": "<=", "feq": "="}[op]
    old = "(%s %s %s)" % (o, xs, rat(K)) if side == "XK" else "(%s %s %s)" % (o, rat(K), xs)
    return "\n".join(["(set-logic ALL)", "(declare-const a Real)(declare-const q Real)(declare-const c Real)(declare-const s Real)",
                      "(define-fun A () Real a)", "(define-fun Bx () Real (* a q c))", "(define-fun By () Real (* a q s))",
                      "(assert (and (> a 0.0) (> q 0.0) (>= c 0.0) (> s 0.0) (= (+ (* c c) (* s s)) 1.0)))",
                      "(assert (xor %s %s))" % (old, new), "(check-sat)"]) + "\n"


# ------------------------------------------------------------------ Boolean skeleton

def skeleton(t, names, ids, specials, memo, pmemo, used):
    if not T.is_t(t):
        if isinstance(t, bool):
            return ("const", t)
        raise NotPoly("non-bool leaf")
    if t.id in memo:
        return memo[t.id]
    if t.id in specials:
        r = specials[t.id]
    elif t.op in ("and", "or"):
        r = (t.op, [skeleton(x, names, ids, specials, memo, pmemo, used) for x in t.args])
    elif t.op == "not":
        r = ("not", skeleton(t.args[0], names, ids, specials, memo, pmemo, used))
    elif t.op == "ite" and t.sort == "B":
        c_, a_, b_ = (skeleton(x, names, ids, specials, memo, pmemo, used) for x in t.args)
        r = ("or", [("and", [c_, a_]), ("and", [("not", c_), b_])])
    elif t.op in ("flt", "fle", "feq"):
        sp = special_atom(t, ids)
        if sp is not None:
            r, key = sp
            used.add(key)
        else:
            rm = pmemo.setdefault("__ratio__", {})
            pos = pmemo.get("__positive__", ())
            (n1, d1), (n2, d2) = to_ratio(t.args[0], names, pmemo, rm, pos), to_ratio(t.args[1], names, pmemo, rm, pos)
            p = padd(n1, n2, -1) if d1 == d2 else padd(pmul(n1, d2), pmul(n2, d1), -1)
            r = ("atom", t.op, ("old", p))
    else:
        raise NotPoly("boolean op %s" % t.op)
    memo[t.id] = r
    return r


def convert_skel(sk, dx, dy, memo):
    k = id(sk)
    if k in memo:
        return memo[k]
    if sk[0] in ("and", "or"):
        r = (sk[0], [convert_skel(x, dx, dy, memo) for x in sk[1]])
    elif sk[0] == "not":
        r = ("not", convert_skel(sk[1], dx, dy, memo))
    elif sk[0] == "atom" and isinstance(sk[2], tuple) and sk[2][0] == "old":
        r = ("atom", sk[1], reduce_circle(stage2(stage1(sk[2][1]), dx, dy)))
    else:
        r = sk
    memo[k] = r
    return r


def rat(c):
    c = Fraction(c)
    if c < 0:
        return "(- %s)" % rat(-c)
    if c.denominator == 1:
        return "%d.0" % c.numerator
    return "(/ %d.0 %d.0)" % (c.numerator, c.denominator)


def ptxt(p):
    if not p:
        return "0.0"
    ts = []
    for m, coef in sorted(p.items()):
        parts = []
        for n, e in m:
            parts += [n] * e
        if not parts:
            ts.append(rat(coef))
        elif coef == 1 and len(parts) == 1:
            ts.append(parts[0])
        elif coef == 1:
            ts.append("(* %s)" % " ".join(parts))
        else:
            ts.append("(* %s %s)" % (rat(coef), " ".join(parts)))
    return ts[0] if len(ts) == 1 else "(+ %s)" % " ".join(ts)


def skel_txt(sk):
    if sk[0] == "const":
        return "true" if sk[1] else "false"
    if sk[0] in ("and", "or"):
        if not sk[1]:
            return "true" if sk[0] == "and" else "false"
        return "(%s %s)" % (sk[0], " ".join(skel_txt(x) for x in sk[1])) if len(sk[1]) > 1 else skel_txt(sk[1][0])
    if sk[0] == "not":
        return "(not %s)" % skel_txt(sk[1])
    if sk[0] == "atom":
        return "(%s %s 0.0)" % ({"flt": "<", "fle": "<=", "feq": "="}[sk[1]], ptxt(sk[2]))
    raise NotPoly(sk[0])


def pvars(sk, acc):
    if sk[0] in ("and", "or"):
        for x in sk[1]:
            pvars(x, acc)
    elif sk[0] == "not":
        pvars(sk[1], acc)
    elif sk[0] == "atom":
        for m in sk[2]:
            for n, e in m:
                acc.add(n)
    return acc


class Converter:
    """per (group, shape) context: shares the expansion caches between the many queries of one context"""

    def __init__(self, a, q, c_, s_, cth, sth, consts=None, drop=None):
        self.names = {c_.id: "c", s_.id: "s", cth.id: "cth", sth.id: "sth"}
        self.ids = dict(q=q.id, c=c_.id, s=s_.id)
        self.term_names = {c_.id: "c", s_.id: "s", cth.id: "cth", sth.id: "sth"}
        self.specials = {}
        for t in (drop or []):
            self.specials[t.id] = ("const", True)
        self.consts = consts or {}
        self.memo, self.pmemo = {}, {}
        self.pmemo["__positive__"] = ("a", "q", "s")   # positive on the cell domain (a >= 0.01, q >= 0.1, sin >= 1/2)
        self.used = set()
        self.smemo = {}

    def skeletons(self, asserts, presubst=False):
        """-> (converted skeletons incl. the positivity facts, (dx, dy))"""
        if self.consts and not presubst:
            m = self.smemo
            asserts = [T.subst(z, self.consts, m) if T.is_t(z) else z for z in asserts]
        dx = dy = None
        for v in T.free_vars([z for z in asserts if T.is_t(z)]):
            n = v.args[0]
            if n.startswith("deltax"):
                if dx not in (None, n):
                    raise NotPoly("two x offsets")
                dx = n
            elif n.startswith("deltay"):
                if dy not in (None, n):
                    raise NotPoly("two y offsets")
                dy = n
        sks = [skeleton(z, self.names, self.ids, self.specials, self.memo, self.pmemo, self.used) for z in asserts]
        cm = {}
        out = [convert_skel(sk, dx, dy, cm) for sk in sks]
        # positivity facts the substitution relies on (part of the cell domain: a >= 0.01, s >= 1/2, q >= 0.1)
        out.append(("atom", "flt", pscale(pvar("A"), -1)))
        out.append(("atom", "flt", pscale(pvar("By"), -1)))
        vs = set()
        for sk in out:
            pvars(sk, vs)
        if "L" in vs:
            out.append(("atom", "flt", pscale(pvar("L"), -1)))
            out.append(("atom", "feq", padd(pmul(pvar("L"), pvar("L")), B2, -1)))
        return out, (dx, dy)

    def text(self, asserts):
        """-> (SMT-LIB text, (dx, dy)) or raises NotPoly"""
        out, dxy = self.skeletons(asserts)
        self.last_skeletons = out
        vs = set()
        for sk in out:
            pvars(sk, vs)
        first = ("A", "Bx", "By", "u", "v", "cth", "sth")
        order = [v for v in first if v in vs] + sorted(v for v in vs if v not in first)
        lines = ["(set-logic ALL)", "(set-option :pp.decimal true)", "(set-option :pp.decimal_precision 20)"]
        lines += ["(declare-const %s Real)" % v for v in order]
        lines += ["(assert %s)" % skel_txt(sk) for sk in out]
        lines.append("(check-sat)")
        lines.append("(get-value (%s))" % " ".join(order))
        return "\n".join(lines) + "\n", dxy

    @staticmethod
    def model_back(m, dxy):
        """new-variable model -> old names (a, q, c, s, cth, sth, delta*)"""
        try:
            A, Bx, By = m["A"], m.get("Bx", 0.0), m["By"]
        except KeyError:
            return m
        if A is None or By is None or Bx is None:
            return m
        bl = math.hypot(Bx, By)
        out = dict(m)
        out.update(a=A, q=bl / A, c=Bx / bl, s=By / bl)
        dx, dy = dxy
        if dy is not None and m.get("v") is not None:
            out[dy] = m["v"] / By
            if dx is not None and m.get("u") is not None:
                out[dx] = (m["u"] - out[dy] * Bx) / A
        return out


# ------------------------------------------------------------------ orientation intervals (branch and bound on theta)

CIRCLE = {((("cth", 2),)): Fraction(1), ((("sth", 2),)): Fraction(1), (): Fraction(-1)}


def reduce_circle(p):
    """normal form modulo cth^2 + sth^2 = 1: sth^(2k+r) -> (1 - cth^2)^k sth^r.  Cross products of two vectors
    rotated by the same angle lose their orientation dependence this way."""
    if p == CIRCLE:
        return p
    if not any(n == "sth" and e >= 2 for m in p for n, e in m):
        return p
    one_minus = {(): Fraction(1), (("cth", 2),): Fraction(-1)}
    r = {}
    for m, coef in p.items():
        d = dict(m)
        e = d.pop("sth", 0)
        if e >= 2:
            if e % 2:
                d["sth"] = 1
            term = pmul({tuple(sorted(d.items())): coef}, ppow(one_minus, e // 2))
        else:
            term = {m: coef}
        r = padd(r, term)
    return r


def split_theta(p):
    """p = p0 + cth p1 + sth p2 + C2 p3 + S2 p4 with C2 = cos 2theta = cth^2 - sth^2, S2 = sin 2theta = 2 cth sth and
    p0..p4 free of the orientation; raises NotPoly if the orientation enters with degree > 2.  (Degree 2 occurs
    when a rotated and a mirrored copy are compared.)"""
    parts = [{}, {}, {}, {}, {}]

    def add(k, mm, coef):
        v = parts[k].get(mm, 0) + coef
        if v == 0:
            parts[k].pop(mm, None)
        else:
            parts[k][mm] = v
    half = Fraction(1, 2)
    for m, coef in p.items():
        d = dict(m)
        ec, es = d.pop("cth", 0), d.pop("sth", 0)
        mm = tuple(sorted(d.items()))
        if ec + es == 0:
            add(0, mm, coef)
        elif (ec, es) == (1, 0):
            add(1, mm, coef)
        elif (ec, es) == (0, 1):
            add(2, mm, coef)
        elif (ec, es) == (2, 0):      # cth^2 = (1 + C2)/2
            add(0, mm, coef * half)
            add(3, mm, coef * half)
        elif (ec, es) == (0, 2):      # sth^2 = (1 - C2)/2
            add(0, mm, coef * half)
            add(3, mm, -coef * half)
        elif (ec, es) == (1, 1):      # cth sth = S2/2
            add(4, mm, coef * half)
        else:
            raise NotPoly("orientation enters with degree %d" % (ec + es))
    return tuple(parts)


def nnf(sk, neg=False):
    """negation normal form; negated atoms are rewritten into positive ones"""
    k = sk[0]
    if k == "const":
        return ("const", sk[1] != neg)
    if k == "not":
        return nnf(sk[1], not neg)
    if k in ("and", "or"):
        kk = k if not neg else ("or" if k == "and" else "and")
        return (kk, [nnf(x, neg) for x in sk[1]])
    if k == "atom":
        op, p = sk[1], sk[2]
        if not neg:
            return sk
        if op == "flt":
            return ("atom", "fle", pscale(p, -1))
        if op == "fle":
            return ("atom", "flt", pscale(p, -1))
        return ("or", [("atom", "flt", p), ("atom", "flt", pscale(p, -1))])
    raise NotPoly(k)


def theta_map(sk, f):
    """apply f(op, p) -> skeleton to every atom of an NNF skeleton"""
    k = sk[0]
    if k in ("and", "or"):
        return (k, [theta_map(x, f) for x in sk[1]])
    if k == "atom":
        return f(sk[1], sk[2])
    return sk


def relax_theta(sks, c0, s0, delta):
    """Over-approximation of  exists theta in [theta0, theta0+delta]: F(theta, x)  by a formula over x alone.
    (cth, sth) = cphi (c0, s0) + sphi (-s0, c0) with (cphi, sphi) on an arc inside the box
    [cos(delta), 1] x [0, sin(delta)] (enlarged by 1e-12).  In NNF every atom is weakened independently to
    'holds for some point of the box'; an atom is affine in (cphi, sphi), so that is a disjunction over the four
    corners.  cth^2 + sth^2 = 1 is dropped."""
    c0, s0 = Fraction(c0), Fraction(s0)
    clo, chi = Fraction(math.cos(delta)) - Fraction(1, 10 ** 12), 1 + Fraction(1, 10 ** 12)
    slo, shi = -Fraction(1, 10 ** 12), Fraction(math.sin(delta)) + Fraction(1, 10 ** 12)

    C0, S0 = c0 * c0 - s0 * s0, 2 * c0 * s0
    c2lo, c2hi = Fraction(math.cos(2 * delta)) - Fraction(1, 10 ** 12), 1 + Fraction(1, 10 ** 12)
    s2lo, s2hi = -Fraction(1, 10 ** 12), Fraction(math.sin(2 * delta)) + Fraction(1, 10 ** 12)

    def f(op, p):
        if p == CIRCLE:
            return ("const", True)
        p0, p1, p2, p3, p4 = split_theta(p)
        if not (p1 or p2 or p3 or p4):
            return ("atom", op, p)
        bases = [p0]
        if p1 or p2:
            P = padd(pscale(p1, c0), pscale(p2, s0))
            Q = padd(pscale(p2, c0), pscale(p1, s0), -1)
            bases = [padd(padd(b_, pscale(P, cc)), pscale(Q, ss)) for b_ in bases for cc in (clo, chi) for ss in (slo, shi)]
        if p3 or p4:
            # (C2, S2) = c2phi (C0, S0) + s2phi (-S0, C0), (c2phi, s2phi) in its own box (the double angle's arc)
            P2 = padd(pscale(p3, C0), pscale(p4, S0))
            Q2 = padd(pscale(p4, C0), pscale(p3, S0), -1)
            bases = [padd(padd(b_, pscale(P2, cc)), pscale(Q2, ss)) for b_ in bases for cc in (c2lo, c2hi) for ss in (s2lo, s2hi)]
        corners = bases
        if op in ("flt", "fle"):
            return ("or", [("atom", op, c) for c in corners])
        return ("and", [("or", [("atom", "fle", c) for c in corners]), ("or", [("atom", "fle", pscale(c, -1)) for c in corners])])
    return [theta_map(nnf(sk), f) for sk in sks]


def pin_theta(sks, c0, s0):
    c0, s0 = Fraction(c0), Fraction(s0)

    def f(op, p):
        if p == CIRCLE:
            return ("const", True)
        p0, p1, p2, p3, p4 = split_theta(p)
        r = padd(padd(p0, pscale(p1, c0)), pscale(p2, s0))
        r = padd(padd(r, pscale(p3, c0 * c0 - s0 * s0)), pscale(p4, 2 * c0 * s0))
        return ("atom", op, r)
    return [theta_map(nnf(sk), f) for sk in sks]


def script_of(sks):
    vs = set()
    for sk in sks:
        pvars(sk, vs)
    first = ("A", "Bx", "By", "u", "v", "cth", "sth")
    order = [v for v in first if v in vs] + sorted(v for v in vs if v not in first)
    lines = ["(set-logic ALL)", "(set-option :pp.decimal true)", "(set-option :pp.decimal_precision 20)"]
    lines += ["(declare-const %s Real)" % v for v in order]
    # sorted, so that symmetric orientations of a symmetric shape give literally the same script
    lines += sorted(set("(assert %s)" % skel_txt(sk) for sk in sks))
    lines.append("(check-sat)")
    lines.append("(get-value (%s))" % " ".join(order))
    return "\n".join(lines) + "\n"
