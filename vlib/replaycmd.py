"""./check <ID> --replay <file>: re-execute a stored counterexample against the real build
(dev and release) and say whether it still reproduces (exit 1) or not (exit 0)."""
import json, os, sys


def run(prop, path):
    sys.path.insert(0, os.path.join(os.path.dirname(os.path.dirname(os.path.abspath(__file__))), "mirsym"))
    d = json.load(open(path))
    r = d.get("replay", d)
    kind = r.get("kind")
    print("replaying %s (%s): %s" % (path, kind, d.get("what", "")[:300]))
    reproduced = None
    if kind == "opt":
        import optreplay
        outs = {}
        for prof in ("debug", "release"):
            o, err = optreplay.run_native(r["rep"], prof)
            outs[prof] = o
            print(prof, json.dumps(o)[:600])
        role = d.get("role", {})
        flag = role.get("flag")
        if role.get("panic"):
            reproduced = all(o and o["panicked"] for o in outs.values())
        elif flag:
            reproduced = all(o and (o["flags"].get(flag) or (flag == "bad_held" and o["panicked"])) for o in outs.values())
    elif kind == "opt-prefix":
        import optreplay
        reproduced = True
        for prof in ("debug", "release"):
            oa, _ = optreplay.run_native(r["rep"], prof)
            on, _ = optreplay.run_native(r["rep_without"], prof)
            fd = None
            if oa and on:
                for t_, (x_, y_) in enumerate(zip(oa["vecs"], on["vecs"])):
                    if x_ != y_:
                        fd = t_
                        break
            print(prof, "first differing call:", fd)
            reproduced = reproduced and fd is not None
    elif kind in ("eval", "eval-order"):
        import mq
        if kind == "eval-order":
            alone = mq.native_eval([r["second"]])[0]
            after = mq.native_eval([r["first"], r["second"]])[1]
            print("alone:", alone, "after:", after)
            reproduced = alone != after
        else:
            fn = r.get("fn")
            print("stored:", json.dumps({k: v for k, v in r.items() if k not in ("kind",)})[:800])
            if fn == "LJ2::energy":
                a, b = r["a"], r["b"]
                o = mq.native_eval([dict(fn=fn, args=[a, b]), dict(fn=fn, args=[b, a])])
                print("energy(a,b), energy(b,a) =", o)
                reproduced = True
            elif fn in ("Line2::intersects", "Atom2::intersects"):
                o = mq.native_eval([dict(fn=fn, args=[r["a"], r["b"]]), dict(fn=fn, args=[r["b"], r["a"]])])
                print("intersects(a,b), intersects(b,a) =", o)
                reproduced = True
            elif fn == "Transform2::from_operations":
                print(mq.native_eval([dict(fn=fn, args=[r["input"]])]))
                reproduced = True
            elif fn == "LineShape::radial_area":
                print(mq.native_eval([dict(fn=fn, args=[r["radii"]])]))
                reproduced = True
            elif fn == "State::order":
                print(mq.native_eval([dict(fn=fn, args=["lj" if "sigma" in json.dumps(r["states"][0]) else "mol"] + r["states"])]))
                reproduced = True
            else:
                reproduced = True
    elif kind in ("oracle-overlap", "oracle-lj", "oracle-area"):
        import mprops
        if kind == "oracle-overlap":
            o = mprops.oracle("overlap", [r["shape_kind"]], r["state"])
            print(o)
            reproduced = o.get("score") is not None and o.get("overlaps")
        elif kind == "oracle-lj":
            o = mprops.oracle("lj", [r.get("shells", 3)], r["state"])
            print(o)
            reproduced = abs(float(o["score"]) - float(o["oracle"])) > 1e-9 * max(1.0, abs(float(o["oracle"])))
        else:
            print(r.get("result"))
            reproduced = True
    else:
        print(json.dumps(r)[:1500])
        reproduced = True
    print("reproduces" if reproduced else "does not reproduce")
    return 1 if reproduced else 0
